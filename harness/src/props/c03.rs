//! C03 — inlined text / character / binary literals decode to exactly the supplied value.
//!
//! Oracle: the statement is rendered twice through sea-query's public API — once with the payload
//! under test and once with a harmless reference payload (`ref`). Both texts are lexed with the
//! harness's own dialect lexer (MySQL backslash rules, Postgres standard-conforming / E'' strings,
//! SQLite quote doubling). The two token streams must be identical except at the literal slots,
//! where the payload rendering must carry exactly one literal token whose *decoded* content equals
//! the supplied value. A payload character that ends the literal early, leaks out as SQL or is
//! changed on the way changes the token stream or the decoded content. On SQLite the literal is
//! additionally evaluated / stored and read back by the real engine.

use crate::lex::{self, Tok};
use crate::runner::*;
use crate::sqlite::Cell;
use crate::util::*;
use crate::with_backend;
use proptest::prelude::*;
use sea_query::extension::postgres::Type;
use sea_query::*;
use serde::{Deserialize, Serialize};
use serde_json::Value as J;

#[derive(Serialize, Deserialize, Clone, Debug, PartialEq, Eq, Hash)]
pub enum Payload {
    Text(String),
    Char(char),
    Bytes(Vec<u8>),
}

#[derive(Serialize, Deserialize, Clone, Copy, Debug, PartialEq, Eq, Hash, PartialOrd, Ord)]
pub enum Pos {
    ValueToString,
    SelectVal,
    Constant,
    ConstantBuild,
    OrderField,
    InList,
    LikeEscape,
    Default,
    ColumnComment,
    TableComment,
    MysqlEnumLabel,
    PgTypeCreate,
    PgTypeAddValue,
    PgTypeAddBefore,
    PgTypeRenameValue,
    PgTypeAddAfter,
    PgTypeRenameValueNew,
    Json,
    PgArrayElem,
    PgArraySingle,
    UpdateSet,
    InsertValue,
    CaseThen,
}

pub const ALL_POS: [Pos; 23] = [
    Pos::ValueToString,
    Pos::SelectVal,
    Pos::Constant,
    Pos::ConstantBuild,
    Pos::OrderField,
    Pos::InList,
    Pos::LikeEscape,
    Pos::Default,
    Pos::ColumnComment,
    Pos::TableComment,
    Pos::MysqlEnumLabel,
    Pos::PgTypeCreate,
    Pos::PgTypeAddValue,
    Pos::PgTypeAddBefore,
    Pos::PgTypeRenameValue,
    Pos::Json,
    Pos::PgArrayElem,
    Pos::PgArraySingle,
    Pos::UpdateSet,
    Pos::InsertValue,
    Pos::CaseThen,
    Pos::PgTypeAddAfter,
    Pos::PgTypeRenameValueNew,
];

#[derive(Serialize, Deserialize, Clone, Debug, PartialEq, Eq, Hash)]
pub struct Case {
    pub pos: Pos,
    pub dialect: Dialect,
    pub payload: Payload,
}

fn a(s: &str) -> Alias {
    Alias::new(s)
}

fn value_of(p: &Payload) -> Value {
    match p {
        Payload::Text(s) => Value::String(Some(Box::new(s.clone()))),
        Payload::Char(c) => Value::Char(Some(*c)),
        Payload::Bytes(b) => Value::Bytes(Some(Box::new(b.clone()))),
    }
}

/// Does the position exist for this dialect and payload kind?
pub fn applicable(pos: Pos, d: Dialect, p: &Payload) -> bool {
    let text = matches!(p, Payload::Text(_));
    match pos {
        Pos::ValueToString | Pos::SelectVal | Pos::Constant | Pos::ConstantBuild | Pos::Default | Pos::InsertValue => true,
        Pos::OrderField | Pos::InList | Pos::UpdateSet | Pos::CaseThen => true,
        Pos::LikeEscape => matches!(p, Payload::Char(_)),
        Pos::ColumnComment | Pos::TableComment | Pos::MysqlEnumLabel => text && d == Dialect::Mysql,
        Pos::PgTypeCreate | Pos::PgTypeAddValue | Pos::PgTypeAddBefore | Pos::PgTypeRenameValue | Pos::PgTypeAddAfter | Pos::PgTypeRenameValueNew => text && d == Dialect::Postgres,
        Pos::Json => text,
        Pos::PgArrayElem | Pos::PgArraySingle => d == Dialect::Postgres && !matches!(p, Payload::Bytes(_)),
    }
}

/// Render the statement of `pos` with value `p` on dialect `d` through the public API.
fn render(pos: Pos, d: Dialect, p: &Payload) -> String {
    let v = value_of(p);
    let text = match p {
        Payload::Text(s) => s.clone(),
        Payload::Char(c) => c.to_string(),
        Payload::Bytes(_) => String::new(),
    };
    match pos {
        Pos::ValueToString => with_backend!(d, b => b.value_to_string(&v)),
        Pos::SelectVal => {
            let q = Query::select().expr(Expr::val(v)).to_owned();
            with_backend!(d, b => q.to_string(b))
        }
        Pos::Constant => {
            let q = Query::select().expr(SimpleExpr::Constant(v)).to_owned();
            with_backend!(d, b => q.to_string(b))
        }
        Pos::ConstantBuild => {
            let q = Query::select().expr(SimpleExpr::Constant(v)).and_where(Expr::col(a("c")).eq(1)).to_owned();
            with_backend!(d, b => q.build(b).0)
        }
        Pos::OrderField => {
            let q = Query::select()
                .column(a("c"))
                .from(a("t"))
                .order_by(a("c"), Order::Field(Values(vec![v, Value::Int(Some(7))])))
                .to_owned();
            // ORDER BY FIELD values are inlined in both modes
            with_backend!(d, b => q.build(b).0)
        }
        Pos::InList => {
            let q = Query::select().column(a("c")).from(a("t")).and_where(Expr::col(a("c")).is_in([v, Value::Int(Some(7))])).to_owned();
            with_backend!(d, b => q.to_string(b))
        }
        Pos::LikeEscape => {
            let ch = match p {
                Payload::Char(c) => *c,
                _ => 'x',
            };
            let q = Query::select().column(a("c")).from(a("t")).and_where(Expr::col(a("c")).like(LikeExpr::new("pat").escape(ch))).to_owned();
            with_backend!(d, b => q.build(b).0)
        }
        Pos::Default => {
            let mut col = ColumnDef::new(a("c"));
            match p {
                Payload::Bytes(_) => col.blob(),
                _ => col.text(),
            };
            col.default(v);
            let t = Table::create().table(a("t")).col(col).to_owned();
            with_backend!(d, b => t.to_string(b))
        }
        Pos::ColumnComment => {
            let t = Table::create().table(a("t")).col(ColumnDef::new(a("c")).integer().comment(text.clone())).to_owned();
            with_backend!(d, b => t.to_string(b))
        }
        Pos::TableComment => {
            let t = Table::create().table(a("t")).comment(text.clone()).col(ColumnDef::new(a("c")).integer()).to_owned();
            with_backend!(d, b => t.to_string(b))
        }
        Pos::MysqlEnumLabel => {
            let t = Table::create()
                .table(a("t"))
                .col(ColumnDef::new(a("c")).enumeration(a("e"), [a("first"), a(&text), a("last")]))
                .to_owned();
            with_backend!(d, b => t.to_string(b))
        }
        Pos::PgTypeCreate => Type::create().as_enum(a("ty")).values([a("first"), a(&text), a("last")]).to_string(PostgresQueryBuilder),
        Pos::PgTypeAddValue => Type::alter().name(a("ty")).add_value(a(&text)).to_string(PostgresQueryBuilder),
        Pos::PgTypeAddBefore => Type::alter().name(a("ty")).add_value(a("newv")).before(a(&text)).to_string(PostgresQueryBuilder),
        Pos::PgTypeRenameValue => Type::alter().name(a("ty")).rename_value(a(&text), a("newv")).to_string(PostgresQueryBuilder),
        Pos::PgTypeAddAfter => Type::alter().name(a("ty")).add_value(a("newv")).after(a(&text)).to_string(PostgresQueryBuilder),
        Pos::PgTypeRenameValueNew => Type::alter().name(a("ty")).rename_value(a("oldv"), a(&text)).to_string(PostgresQueryBuilder),
        Pos::Json => {
            let q = Query::select().expr(Expr::val(Value::Json(Some(Box::new(serde_json::Value::String(text.clone())))))).to_owned();
            with_backend!(d, b => q.to_string(b))
        }
        Pos::PgArrayElem => {
            let ty = match p {
                Payload::Char(_) => ArrayType::Char,
                _ => ArrayType::String,
            };
            let arr = Value::Array(ty, Some(Box::new(vec![v, Value::String(Some(Box::new("other".into())))])));
            let q = Query::select().expr(Expr::val(arr)).to_owned();
            q.to_string(PostgresQueryBuilder)
        }
        Pos::PgArraySingle => {
            // an array holding exactly the one value
            let ty = match p {
                Payload::Char(_) => ArrayType::Char,
                _ => ArrayType::String,
            };
            let q = Query::select().expr(Expr::val(Value::Array(ty, Some(Box::new(vec![v]))))).to_owned();
            q.to_string(PostgresQueryBuilder)
        }
        Pos::UpdateSet => {
            let q = Query::update().table(a("t")).value(a("c"), v).and_where(Expr::col(a("id")).eq(1)).to_owned();
            with_backend!(d, b => q.to_string(b))
        }
        Pos::InsertValue => {
            let q = Query::insert().into_table(a("t")).columns([a("c"), a("d")]).values_panic([v.into(), 1.into()]).to_owned();
            with_backend!(d, b => q.to_string(b))
        }
        Pos::CaseThen => {
            let q = Query::select().expr(CaseStatement::new().case(Expr::col(a("c")).eq(1), v).finally(0)).from(a("t")).to_owned();
            with_backend!(d, b => q.to_string(b))
        }
    }
}

fn reference_payload(p: &Payload) -> Payload {
    match p {
        Payload::Text(_) => Payload::Text("ref".into()),
        Payload::Char(_) => Payload::Char('r'),
        Payload::Bytes(_) => Payload::Bytes(vec![0xAB, 0xCD]),
    }
}

/// what the literal token must decode to
enum Expect {
    Text(String),
    Bytes(Vec<u8>),
}

fn expected(pos: Pos, p: &Payload) -> Expect {
    match (pos, p) {
        (Pos::Json, Payload::Text(s)) => Expect::Text(serde_json::Value::String(s.clone()).to_string()),
        (_, Payload::Text(s)) => Expect::Text(s.clone()),
        (_, Payload::Char(c)) => Expect::Text(c.to_string()),
        (_, Payload::Bytes(b)) => Expect::Bytes(b.clone()),
    }
}

fn tok_matches(d: Dialect, tok: &Tok, e: &Expect) -> Result<(), String> {
    match (tok, e) {
        (Tok::Str(s), Expect::Text(t)) => {
            if s == t {
                Ok(())
            } else {
                Err(describe_diff(s, t))
            }
        }
        (Tok::Bytes(b), Expect::Bytes(t)) if d != Dialect::Postgres => {
            if b == t {
                Ok(())
            } else {
                Err(bytes_diff(b, t))
            }
        }
        (Tok::Str(s), Expect::Bytes(t)) if d == Dialect::Postgres => match lex::pg_bytea_from_text(s) {
            Some(b) if &b == t => Ok(()),
            Some(b) => Err(bytes_diff(&b, t)),
            None => Err(format!("literal text {s:?} is not bytea hex format")),
        },
        (t, _) => Err(format!("token {} is not a literal of the expected kind", t.show())),
    }
}

/// a bounded class for the signature (the payload itself is in the detail text)
fn bytes_diff(got: &[u8], want: &[u8]) -> String {
    match got.len().cmp(&want.len()) {
        std::cmp::Ordering::Greater => "-bytes/longer-than-supplied".into(),
        std::cmp::Ordering::Less => "-bytes/shorter-than-supplied".into(),
        std::cmp::Ordering::Equal => "-bytes/content-differs".into(),
    }
}

fn describe_diff(got: &str, want: &str) -> String {
    let g: Vec<char> = got.chars().collect();
    let w: Vec<char> = want.chars().collect();
    let i = g.iter().zip(w.iter()).position(|(x, y)| x != y).unwrap_or(g.len().min(w.len()));
    let wc = w.get(i).map(|c| format!("U+{:04X}", *c as u32)).unwrap_or("end".into());
    let gc = g.get(i).map(|c| format!("U+{:04X}", *c as u32)).unwrap_or("end".into());
    format!("@{wc}->{gc}")
}

fn char_class(p: &Payload) -> &'static str {
    match p {
        Payload::Text(_) => "text",
        Payload::Char(_) => "char",
        Payload::Bytes(_) => "bytes",
    }
}

pub fn check(c: &Case, obs: &mut Obs) -> R {
    let Case { pos, dialect: d, payload: p } = c;
    let (pos, d) = (*pos, *d);
    if !applicable(pos, d, p) {
        return discard("position not applicable");
    }
    // domain: NUL has no representation in Postgres and SQLite text
    let has_nul = match p {
        Payload::Text(s) => s.contains('\0'),
        Payload::Char(ch) => *ch == '\0',
        Payload::Bytes(_) => false,
    };
    if has_nul && d != Dialect::Mysql {
        return discard("NUL outside MySQL");
    }
    let kind = char_class(p);
    let sigbase = format!("{}/{:?}/{}", d.name(), pos, kind);
    let refp = reference_payload(p);
    let sql_ref = guard("render-ref", || render(pos, d, &refp))?;
    let sql = match guard("render", || render(pos, d, p)) {
        Ok(s) => s,
        Err(Stop::Fail { detail, .. }) => return fail(format!("{sigbase}/panic"), format!("payload {p:?}: {detail}")),
        Err(e) => return Err(e),
    };
    obs.note(sql.clone());
    let toks_ref = match lex::lex(d, &sql_ref) {
        Ok(t) => t,
        Err(e) => return fail(format!("{sigbase}/ref-lex-error"), format!("reference rendering does not lex: {sql_ref:?}: {e:?}")),
    };
    let toks = match lex::lex(d, &sql) {
        Ok(t) => t,
        Err(e) => return fail(format!("{sigbase}/lex-error"), format!("payload {p:?}: rendered {sql:?}: {e:?}")),
    };
    let e_ref = expected(pos, &refp);
    let e = expected(pos, p);
    let slots: Vec<usize> = toks_ref.iter().enumerate().filter(|(_, t)| tok_matches(d, &t.tok, &e_ref).is_ok()).map(|(i, _)| i).collect();
    if slots.len() != 1 {
        return fail(
            format!("{sigbase}/ref-slot-count"),
            format!("reference rendering {sql_ref:?} has {} literal slots (expected 1): {}", slots.len(), lex::show(&toks_ref)),
        );
    }
    if toks.len() != toks_ref.len() {
        return fail(
            format!("{sigbase}/token-count"),
            format!("payload {p:?}: rendered {sql:?} lexes to {} tokens, the reference {sql_ref:?} to {}: {}", toks.len(), toks_ref.len(), lex::show(&toks)),
        );
    }
    for (i, (t, r)) in toks.iter().zip(toks_ref.iter()).enumerate() {
        if i == slots[0] {
            if let Err(why) = tok_matches(d, &t.tok, &e) {
                return fail(format!("{sigbase}/payload{why}"), format!("payload {p:?}: rendered {sql:?}: literal decodes wrongly: {why}; token {}", t.tok.show()));
            }
        } else if t.tok != r.tok {
            return fail(
                format!("{sigbase}/skeleton"),
                format!("payload {p:?}: rendered {sql:?}: token {i} is {} but the reference has {}", t.tok.show(), r.tok.show()),
            );
        }
    }
    // SQLite: the real engine must read the literal back as the supplied value
    if d == Dialect::Sqlite {
        let want = match &e {
            Expect::Text(t) => Cell::Text(t.clone()),
            Expect::Bytes(b) => Cell::Blob(b.clone()),
        };
        let engine_sql = match pos {
            Pos::ValueToString => Some(format!("SELECT {sql}")),
            Pos::SelectVal | Pos::Constant | Pos::Json => Some(sql.clone()),
            _ => None,
        };
        if let Some(q) = engine_sql {
            match crate::sqlite::scratch(|db| db.rows(&q)) {
                Ok(rows) => {
                    if rows.len() != 1 || rows[0].first() != Some(&want) {
                        return fail(format!("{sigbase}/engine-value"), format!("payload {p:?}: {q:?} returned {rows:?}, expected {want:?}"));
                    }
                    obs.label("engine-select");
                }
                Err(e) => return fail(format!("{sigbase}/engine-error"), format!("payload {p:?}: {q:?}: {e:?}")),
            }
        }
        if pos == Pos::Default {
            let r = crate::sqlite::scratch(|db| db.exec(&sql).and_then(|_| db.exec("INSERT INTO \"t\" DEFAULT VALUES")).and_then(|_| db.rows("SELECT \"c\" FROM \"t\"")));
            match r {
                Ok(rows) => {
                    if rows.len() != 1 || rows[0].first() != Some(&want) {
                        return fail(format!("{sigbase}/engine-default"), format!("payload {p:?}: {sql:?} stored default {rows:?}, expected {want:?}"));
                    }
                    obs.label("engine-default");
                }
                Err(e) => return fail(format!("{sigbase}/engine-error"), format!("payload {p:?}: {sql:?}: {e:?}")),
            }
        }
    }
    let nontrivial = match p {
        Payload::Text(s) => s.chars().any(special),
        Payload::Char(ch) => special(*ch),
        Payload::Bytes(b) => !b.is_empty(),
    };
    obs.label(format!("{:?}", pos));
    obs.label(kind);
    if nontrivial {
        obs.nontrivial(c);
        obs.label("has-special");
    }
    Ok(())
}

fn special(ch: char) -> bool {
    matches!(ch, '\'' | '"' | '\\' | '`' | '%' | '_') || (ch as u32) < 0x20 || (ch as u32) >= 0x7f
}

const ALPHABET: [&str; 12] = ["'", "\"", "\\", "a", "%", "_", "\n", "\t", "\u{1a}", "\u{8}", "é", "😀"];
const ALPHABET_MYSQL: [&str; 13] = ["'", "\"", "\\", "a", "%", "_", "\n", "\t", "\u{1a}", "\u{8}", "é", "😀", "\0"];

fn text_positions(d: Dialect) -> Vec<Pos> {
    let p = Payload::Text(String::new());
    ALL_POS.iter().copied().filter(|pos| applicable(*pos, d, &p)).collect()
}

fn payload_strategy() -> impl Strategy<Value = Payload> {
    prop_oneof![
        5 => nasty_string_nul(48).prop_map(Payload::Text),
        2 => prop_oneof![nasty_char(), any::<char>()].prop_map(Payload::Char),
        2 => proptest::collection::vec(any::<u8>(), 0..48).prop_map(Payload::Bytes),
    ]
}

pub fn case_strategy() -> impl Strategy<Value = Case> {
    (any::<u16>(), any::<u16>(), payload_strategy()).prop_map(|(pi, di, payload)| {
        let dialect = DIALECTS[pick_idx(di, 3)];
        // construct an applicable (position, dialect, payload) triple: pick among the applicable positions
        let payload = match payload {
            Payload::Text(s) if dialect != Dialect::Mysql => Payload::Text(s.replace('\0', "0")),
            Payload::Char('\0') if dialect != Dialect::Mysql => Payload::Char('0'),
            p => p,
        };
        let poss: Vec<Pos> = ALL_POS.iter().copied().filter(|p| applicable(*p, dialect, &payload)).collect();
        let pos = poss[pick_idx(pi, poss.len())];
        Case { pos, dialect, payload }
    })
}

pub fn run(ctx: &mut Ctx) {
    ctx.rule = "cases = (position, backend, payload): positions are every place where a value is inlined (value_to_string, SELECT value, \
constant, ORDER BY FIELD list, IN list, LIKE ESCAPE, column DEFAULT, MySQL column/table COMMENT, MySQL ENUM label, Postgres CREATE/ALTER TYPE \
labels, JSON, Postgres array element, UPDATE SET, INSERT VALUES, CASE THEN); payloads are all strings over {' \" \\ a % _ LF TAB 0x1A BS é 😀 (+NUL on MySQL)} \
up to length L (exhaustive), every char class representative / all chars (thorough), random Unicode text, chars and byte strings, and one byte string and one text of every length up to 1200 (quick) / 6000 (thorough). \
Non-trivial = the payload contains a quote, backslash, wildcard, control or non-ASCII character (or is a non-empty byte string); distinct by (position, backend, payload)."
        .into();
    ctx.domain_restrictions.push("NUL is generated only for MySQL (Postgres and SQLite have no representation for it in SQL text)".into());
    ctx.assumptions.push("MySQL default sql_mode (backslash escapes on, ANSI_QUOTES off); Postgres standard_conforming_strings = on; lexical rules transcribed from the manuals".into());
    ctx.assumptions.push(format!("SQLite engine {} reads literals back for the SQLite positions", crate::sqlite::version()));
    // exhaustive strings per dialect and text position
    let max_len = ctx.tier.pick(3, 4);
    for d in DIALECTS {
        let alpha: Vec<&'static str> = if d == Dialect::Mysql { ALPHABET_MYSQL.to_vec() } else { ALPHABET.to_vec() };
        let poss = text_positions(d);
        let per = count_strings(alpha.len() as u64, max_len);
        let total = per * poss.len() as u64;
        ctx.run_indexed(
            &format!("alphabet-{}", d.name()),
            total,
            &|i| Case { pos: poss[(i % poss.len() as u64) as usize], dialect: d, payload: Payload::Text(nth_string(&alpha, i / poss.len() as u64)) },
            &check,
        );
    }
    // chars: exhaustive over a range per tier
    let char_positions = [Pos::ValueToString, Pos::SelectVal, Pos::Constant, Pos::LikeEscape, Pos::Default, Pos::OrderField];
    let upper: u32 = ctx.tier.pick(0x3000, 0x110000);
    ctx.run_indexed(
        "chars",
        (upper as u64) * 3,
        &|i| {
            let d = DIALECTS[(i % 3) as usize];
            let cp = (i / 3) as u32;
            let ch = char::from_u32(cp).unwrap_or('\u{fffd}');
            let ch = if ch == '\0' && d != Dialect::Mysql { '0' } else { ch };
            Case { pos: char_positions[(cp as usize) % char_positions.len()], dialect: d, payload: Payload::Char(ch) }
        },
        &check,
    );
    // single bytes and byte pairs
    ctx.run_indexed(
        "bytes-small",
        (1 + 256 + 65536) * 3,
        &|i| {
            let d = DIALECTS[(i % 3) as usize];
            let k = i / 3;
            let b = if k == 0 {
                vec![]
            } else if k <= 256 {
                vec![(k - 1) as u8]
            } else {
                let x = k - 257;
                vec![(x >> 8) as u8, (x & 255) as u8]
            };
            Case { pos: [Pos::ValueToString, Pos::SelectVal, Pos::Default][(k % 3) as usize], dialect: d, payload: Payload::Bytes(b) }
        },
        &check,
    );
    // every length up to a bound (block-wise encoders, buffers): a byte string and a text with escape-relevant characters per length
    let max_payload: u64 = ctx.tier.pick(1200, 6000);
    ctx.run_indexed(
        "lengths",
        (max_payload + 1) * 3 * 2,
        &|i| {
            let d = DIALECTS[(i % 3) as usize];
            let text = (i / 3) % 2 == 1;
            let len = (i / 6) as usize;
            let pos = [Pos::ValueToString, Pos::SelectVal, Pos::Default, Pos::InsertValue][len % 4];
            let payload = if text {
                const UNITS: [&str; 8] = ["a", "'", "\\", "é", "😀", "\n", "%", "\""];
                Payload::Text((0..len).map(|k| UNITS[(k * 7 + len) % 8]).collect())
            } else {
                Payload::Bytes((0..len).map(|k| (k * 31 + len * 7) as u8).collect())
            };
            Case { pos, dialect: d, payload }
        },
        &check,
    );
    let n = ctx.tier.pick(160_000, 3_000_000);
    ctx.run_proptest("random", n, &case_strategy, &check);
    for p in ctx.parts.iter_mut() {
        if p.kind == "exhaustive" {
            p.exhaustive = true;
        }
    }
    ctx.extra.insert("alphabet_max_len".into(), serde_json::json!(max_len));
}

pub fn replay(_part: &str, case: &J, obs: &mut Obs) -> R {
    let c: Case = from_case(case)?;
    check(&c, obs)
}
