//! The reference side of C13: resolution of specs into concrete, valid requests and the
//! `CatalogueModel` that is updated per statement FROM THE SPEC (never from sea-query's output).

use super::spec::*;
use std::collections::BTreeSet;

pub type Uid = usize;

/// the two tables that exist before the case starts (created by the harness with plain SQL)
pub const PARENTS: [(&str, [&str; 3]); 2] = [("p1", ["id", "k1", "k2"]), ("pa\"r ent", ["i d", "k\"1", "k2"])];

pub fn parent_setup_sql() -> Vec<String> {
    vec![
        r#"CREATE TABLE "p1" ("id" integer PRIMARY KEY, "k1" text, "k2" integer, UNIQUE ("k1", "k2"))"#.to_string(),
        r#"CREATE TABLE "pa""r ent" ("i d" integer PRIMARY KEY, "k""1" text, "k2" integer)"#.to_string(),
    ]
}

#[derive(Clone, Debug, PartialEq, Eq)]
pub enum PLit {
    Int(i64),
    Text(String),
}

/// resolved predicate: columns by uid (names are looked up when it is rendered / built)
#[derive(Clone, Debug, PartialEq, Eq)]
pub enum RPred {
    Cmp { col: Uid, op: CmpOp, lit: PLit },
    IsNull(Uid),
    NotNull(Uid),
    And(Box<RPred>, Box<RPred>),
    Or(Box<RPred>, Box<RPred>),
    Not(Box<RPred>),
}

impl RPred {
    pub fn cols(&self, out: &mut BTreeSet<Uid>) {
        match self {
            RPred::Cmp { col, .. } | RPred::IsNull(col) | RPred::NotNull(col) => {
                out.insert(*col);
            }
            RPred::And(a, b) | RPred::Or(a, b) => {
                a.cols(out);
                b.cols(out);
            }
            RPred::Not(a) => a.cols(out),
        }
    }
    pub fn lits(&self, out: &mut Vec<(Uid, PLit)>) {
        match self {
            RPred::Cmp { col, lit, .. } => out.push((*col, lit.clone())),
            RPred::IsNull(_) | RPred::NotNull(_) => {}
            RPred::And(a, b) | RPred::Or(a, b) => {
                a.lits(out);
                b.lits(out);
            }
            RPred::Not(a) => a.lits(out),
        }
    }
}

#[derive(Clone, Debug, PartialEq, Eq)]
pub enum RSpec {
    Null,
    NotNull,
    Default(Lit),
    Unique,
    PrimaryKey,
    AutoIncrement,
    Check(RPred),
    Comment(String),
    Extra(ExtraKind),
}

#[derive(Clone, Debug)]
pub struct RCol {
    pub uid: Uid,
    pub name: String,
    pub ty: Ty,
    pub via_type: bool,
    pub specs: Vec<RSpec>,
}

#[derive(Clone, Debug)]
pub struct RKey {
    pub name: Option<String>,
    pub cols: Vec<(Uid, Ord3)>,
}

#[derive(Clone, Debug, PartialEq, Eq)]
pub enum ParentRef {
    Other(usize),
    SelfTable,
}

#[derive(Clone, Debug, PartialEq, Eq)]
pub enum ToCol {
    Name(String),
    Own(Uid),
}

#[derive(Clone, Debug)]
pub struct RFk {
    pub name: Option<String>,
    pub parent: ParentRef,
    pub from: Vec<Uid>,
    pub to: Vec<ToCol>,
    pub on_delete: Option<Act>,
    pub on_update: Option<Act>,
    pub tuple_api: bool,
}

#[derive(Clone, Debug)]
pub struct RTable {
    pub name: String,
    pub temporary: bool,
    pub if_not_exists: bool,
    pub comment: Option<String>,
    pub cols: Vec<RCol>,
    pub pk: Option<RKey>,
    pub pk_first: bool,
    pub pk_api: bool,
    pub uniques: Vec<RKey>,
    pub fks: Vec<RFk>,
    pub checks: Vec<RPred>,
    pub via_build: bool,
}

#[derive(Clone, Debug)]
pub enum RStep {
    AddColumn { col: RCol, api_if_not_exists: bool },
    RenameColumn { uid: Uid, from: String, to: String },
    DropColumn { uid: Uid, name: String },
    RenameTable { from: String, to: String },
    CreateIndex { name: String, unique: bool, cols: Vec<(Uid, Ord3)>, pred: Option<RPred>, if_not_exists: bool, already: bool, split_where: bool },
    DropIndex { name: String, if_exists: bool, exists: bool },
    DropTable { name: String, if_exists: bool, exists: bool, opt: u8 },
}

// ------------------------------------------------------------------------------------- the model

#[derive(Clone, Debug)]
pub struct MCol {
    pub uid: Uid,
    pub name: String,
    pub ty: Ty,
    pub aff: Aff,
    /// declared nullability: Some(true) = NOT NULL, Some(false) = nullable, None = both NULL and
    /// NOT NULL were requested (contradictory request: nothing is asserted)
    pub notnull: Option<bool>,
    pub default: Option<Lit>,
    pub autoinc: bool,
    pub nocase: bool,
    pub checks: Vec<RPred>,
}

#[derive(Clone, Debug)]
pub struct MKey {
    pub cols: Vec<(Uid, bool)>,
    pub pk: bool,
}

#[derive(Clone, Debug)]
pub struct MIndex {
    pub name: String,
    pub unique: bool,
    pub cols: Vec<(Uid, bool)>,
    pub pred: Option<RPred>,
}

#[derive(Clone, Debug)]
pub struct MFk {
    pub parent: ParentRef,
    pub from: Vec<Uid>,
    pub to: Vec<ToCol>,
    pub on_delete: Option<Act>,
    pub on_update: Option<Act>,
}

#[derive(Clone, Debug)]
pub struct Model {
    pub name: String,
    pub temp: bool,
    pub exists: bool,
    pub cols: Vec<MCol>,
    /// declared PRIMARY KEY / UNIQUE constraints in the order the engine meets them
    pub keys: Vec<MKey>,
    pub indexes: Vec<MIndex>,
    pub fks: Vec<MFk>,
    pub checks: Vec<RPred>,
    pub next_uid: Uid,
    /// SQLite 3.40.1 cannot rename a column that is the only column of a table-level PRIMARY KEY
    /// written after a table-level UNIQUE that mentions it ("error in table .. after rename")
    pub rename_blocked: Option<Uid>,
    /// names given to table-level PRIMARY KEY / UNIQUE constraints, in the order they are written
    pub constraint_names: Vec<String>,
}

fn lower(s: &str) -> String {
    s.to_ascii_lowercase()
}

/// a name not yet in `used` (SQLite compares object and column names ASCII-case-insensitively)
pub fn fresh(used: &BTreeSet<String>, want: &str) -> String {
    let mut base = want.to_string();
    if base.is_empty() {
        base = "e".into();
    }
    let l = lower(&base);
    if l.starts_with("sqlite_") {
        base = format!("x{base}");
    }
    if matches!(lower(&base).as_str(), "rowid" | "oid" | "_rowid_") {
        base = format!("{base}x");
    }
    if !used.contains(&lower(&base)) {
        return base;
    }
    let mut k = 2;
    loop {
        let cand = format!("{base}~{k}");
        if !used.contains(&lower(&cand)) {
            return cand;
        }
        k += 1;
    }
}

pub fn class_of(aff: Aff) -> Class {
    match aff {
        Aff::Integer | Aff::Real | Aff::Numeric => Class::Num,
        Aff::Text => Class::Text,
        Aff::Blob => Class::Blob,
    }
}

#[derive(Clone, Copy, Debug, PartialEq, Eq)]
pub enum Class {
    Num,
    Text,
    Blob,
}

/// resolve a predicate: `pick(selector)` gives the column (uid, class) a selector means
fn resolve_pred(p: &Pred, pick: &dyn Fn(u8) -> (Uid, Class)) -> RPred {
    match p {
        Pred::Cmp { c, op, int, text } => {
            let (uid, class) = pick(*c);
            match class {
                Class::Num => RPred::Cmp { col: uid, op: *op, lit: PLit::Int(*int) },
                Class::Text => RPred::Cmp { col: uid, op: *op, lit: PLit::Text(text.clone()) },
                Class::Blob => RPred::NotNull(uid),
            }
        }
        Pred::IsNull(c) => RPred::IsNull(pick(*c).0),
        Pred::NotNull(c) => RPred::NotNull(pick(*c).0),
        Pred::And(a, b) => RPred::And(Box::new(resolve_pred(a, pick)), Box::new(resolve_pred(b, pick))),
        Pred::Or(a, b) => RPred::Or(Box::new(resolve_pred(a, pick)), Box::new(resolve_pred(b, pick))),
        Pred::Not(a) => RPred::Not(Box::new(resolve_pred(a, pick))),
    }
}

#[derive(Clone, Copy, PartialEq, Eq)]
enum ColCtx {
    Create { allow_pk: bool },
    Add,
}

/// Apply the engine's own restrictions to one column's specification list (DESIGN 3.6) and
/// resolve its CHECKs to the column itself.
fn resolve_col(c: &ColSpec, uid: Uid, name: String, ctx: ColCtx) -> RCol {
    let class = class_of(c.ty.intended());
    let mut seen: BTreeSet<&'static str> = BTreeSet::new();
    let mut n_checks = 0;
    let wants_pk = c.specs.iter().any(|s| matches!(s, CSpec::PrimaryKey));
    let pk_ok = wants_pk && matches!(ctx, ColCtx::Create { allow_pk: true });
    let ai_ok = pk_ok && c.ty.is_integer_family();
    let mut specs = vec![];
    for s in &c.specs {
        let k = s.kind();
        if k == "check" {
            n_checks += 1;
            if n_checks > 2 {
                continue;
            }
        } else if !seen.insert(k) {
            continue; // one specification per kind (two defaults contradict each other)
        }
        match s {
            CSpec::Null => specs.push(RSpec::Null),
            CSpec::NotNull => specs.push(RSpec::NotNull),
            CSpec::Default(l) => {
                // ADD COLUMN: no CURRENT_TIMESTAMP default (engine restriction)
                if ctx == ColCtx::Add && matches!(l, Lit::CurrentTimestamp) {
                    continue;
                }
                specs.push(RSpec::Default(l.clone()))
            }
            CSpec::Unique => {
                if ctx != ColCtx::Add {
                    specs.push(RSpec::Unique)
                }
            }
            CSpec::PrimaryKey => {
                if pk_ok {
                    specs.push(RSpec::PrimaryKey)
                }
            }
            CSpec::AutoIncrement => {
                if ai_ok {
                    specs.push(RSpec::AutoIncrement)
                }
            }
            CSpec::Check(p) => specs.push(RSpec::Check(resolve_pred(p, &|_| (uid, class)))),
            CSpec::Comment(t) => specs.push(RSpec::Comment(t.clone())),
            CSpec::Extra(e) => specs.push(RSpec::Extra(*e)),
        }
    }
    if ctx == ColCtx::Add {
        // ADD COLUMN ... NOT NULL needs a non-NULL default (engine restriction)
        let has_nonnull_default = specs.iter().any(|s| matches!(s, RSpec::Default(l) if !l.is_null()));
        if !has_nonnull_default {
            specs.retain(|s| !matches!(s, RSpec::NotNull));
        }
    }
    RCol { uid, name, ty: c.ty.clone(), via_type: c.via_type, specs }
}

fn resolve_key(k: &KeySpec, cols: &[RCol]) -> RKey {
    let mut seen = BTreeSet::new();
    let mut out = vec![];
    for (sel, ord) in &k.cols {
        let c = &cols[*sel as usize % cols.len()];
        if seen.insert(c.uid) {
            out.push((c.uid, *ord));
        }
    }
    RKey { name: k.name.clone(), cols: out }
}

pub fn resolve_table(t: &TableSpec) -> RTable {
    let mut used: BTreeSet<String> = PARENTS.iter().map(|p| lower(p.0)).collect();
    let name = fresh(&used, &t.name);
    used.insert(lower(&name));
    let mut col_names = BTreeSet::new();
    let mut cols = vec![];
    let mut have_pk = false;
    for (i, c) in t.cols.iter().enumerate() {
        let n = fresh(&col_names, &c.name);
        col_names.insert(lower(&n));
        let rc = resolve_col(c, i, n, ColCtx::Create { allow_pk: !have_pk });
        have_pk |= rc.specs.iter().any(|s| matches!(s, RSpec::PrimaryKey));
        cols.push(rc);
    }
    let pk = if have_pk { None } else { t.pk.as_ref().map(|k| resolve_key(k, &cols)).filter(|k| !k.cols.is_empty()) };
    let uniques = t.uniques.iter().map(|k| resolve_key(k, &cols)).filter(|k| !k.cols.is_empty()).collect();
    let classes: Vec<(Uid, Class)> = cols.iter().map(|c| (c.uid, class_of(c.ty.intended()))).collect();
    let pick = |sel: u8| classes[sel as usize % classes.len()];
    let checks = t.checks.iter().map(|p| resolve_pred(p, &pick)).collect();
    let mut fks = vec![];
    for f in &t.fks {
        let mut seen = BTreeSet::new();
        let mut from = vec![];
        for sel in f.cols.iter().take(2) {
            let c = &cols[*sel as usize % cols.len()];
            if seen.insert(c.uid) {
                from.push(c.uid);
            }
        }
        let (parent, to) = match f.parent % 3 {
            2 => {
                let n = cols.len();
                (ParentRef::SelfTable, (0..from.len()).map(|i| ToCol::Own(cols[(f.to as usize + i) % n].uid)).collect::<Vec<_>>())
            }
            p => {
                let pc = PARENTS[p as usize].1;
                (ParentRef::Other(p as usize), (0..from.len()).map(|i| ToCol::Name(pc[(f.to as usize + i) % pc.len()].to_string())).collect::<Vec<_>>())
            }
        };
        // a self reference needs as many distinct own columns as child columns
        let mut to = to;
        if let ParentRef::SelfTable = parent {
            let mut s = BTreeSet::new();
            to.retain(|c| s.insert(format!("{c:?}")));
            from.truncate(to.len());
        }
        if from.is_empty() {
            continue;
        }
        fks.push(RFk { name: f.name.clone(), parent, from, to, on_delete: f.on_delete, on_update: f.on_update, tuple_api: f.tuple_api });
    }
    RTable {
        name,
        temporary: t.temporary,
        if_not_exists: t.if_not_exists,
        comment: t.comment.clone(),
        cols,
        pk,
        pk_first: t.pk_first,
        pk_api: t.pk_api,
        uniques,
        fks,
        checks,
        via_build: t.via_build,
    }
}

fn mcol_of(rc: &RCol) -> MCol {
    let has_null = rc.specs.iter().any(|s| matches!(s, RSpec::Null));
    let has_nn = rc.specs.iter().any(|s| matches!(s, RSpec::NotNull));
    MCol {
        uid: rc.uid,
        name: rc.name.clone(),
        aff: rc.ty.intended(),
        ty: rc.ty.clone(),
        notnull: match (has_null, has_nn) {
            (true, true) => None,
            (_, nn) => Some(nn),
        },
        default: rc.specs.iter().find_map(|s| if let RSpec::Default(l) = s { Some(l.clone()) } else { None }),
        autoinc: rc.specs.iter().any(|s| matches!(s, RSpec::AutoIncrement)),
        nocase: rc.specs.iter().any(|s| matches!(s, RSpec::Extra(ExtraKind::CollateNocase))),
        checks: rc.specs.iter().filter_map(|s| if let RSpec::Check(p) = s { Some(p.clone()) } else { None }).collect(),
    }
}

fn key_cols(k: &RKey) -> Vec<(Uid, bool)> {
    k.cols.iter().map(|(u, o)| (*u, *o == Ord3::Desc)).collect()
}

impl Model {
    pub fn from_table(t: &RTable) -> Model {
        let mut keys = vec![];
        for c in &t.cols {
            // the backend writes the specifications in order, PRIMARY KEY last
            if c.specs.iter().any(|s| matches!(s, RSpec::Unique)) {
                keys.push(MKey { cols: vec![(c.uid, false)], pk: false });
            }
            if c.specs.iter().any(|s| matches!(s, RSpec::PrimaryKey)) {
                keys.push(MKey { cols: vec![(c.uid, false)], pk: true });
            }
        }
        if t.pk_first {
            if let Some(k) = &t.pk {
                keys.push(MKey { cols: key_cols(k), pk: true });
            }
        }
        for k in &t.uniques {
            keys.push(MKey { cols: key_cols(k), pk: false });
        }
        if !t.pk_first {
            if let Some(k) = &t.pk {
                keys.push(MKey { cols: key_cols(k), pk: true });
            }
        }
        let mut constraint_names = vec![];
        if t.pk_first {
            constraint_names.extend(t.pk.iter().filter_map(|k| k.name.clone()));
        }
        constraint_names.extend(t.uniques.iter().filter_map(|k| k.name.clone()));
        if !t.pk_first {
            constraint_names.extend(t.pk.iter().filter_map(|k| k.name.clone()));
        }
        Model {
            constraint_names,
            name: t.name.clone(),
            temp: t.temporary,
            exists: true,
            cols: t.cols.iter().map(mcol_of).collect(),
            keys,
            indexes: vec![],
            fks: t.fks.iter().map(|f| MFk { parent: f.parent.clone(), from: f.from.clone(), to: f.to.clone(), on_delete: f.on_delete, on_update: f.on_update }).collect(),
            checks: t.checks.clone(),
            next_uid: t.cols.len(),
            rename_blocked: match &t.pk {
                Some(k) if !t.pk_first && k.cols.len() == 1 && t.uniques.iter().any(|u| u.cols.iter().any(|c| c.0 == k.cols[0].0)) => Some(k.cols[0].0),
                _ => None,
            },
        }
    }

    pub fn col(&self, uid: Uid) -> &MCol {
        self.cols.iter().find(|c| c.uid == uid).expect("uid in model")
    }
    pub fn col_name(&self, uid: Uid) -> String {
        self.col(uid).name.clone()
    }
    pub fn pk_cols(&self) -> Vec<Uid> {
        self.keys.iter().find(|k| k.pk).map(|k| k.cols.iter().map(|c| c.0).collect()).unwrap_or_default()
    }
    pub fn constraint_count(&self) -> usize {
        self.keys.len() + self.fks.len() + self.checks.len() + self.cols.iter().map(|c| c.checks.len() + (c.notnull != Some(false)) as usize).sum::<usize>()
    }

    /// object names in use (tables and indexes share one name space)
    fn used_names(&self) -> BTreeSet<String> {
        let mut s: BTreeSet<String> = PARENTS.iter().map(|p| lower(p.0)).collect();
        s.insert(lower(&self.name));
        for i in &self.indexes {
            s.insert(lower(&i.name));
        }
        s
    }

    /// columns that SQLite refuses to drop
    fn undroppable(&self) -> BTreeSet<Uid> {
        let mut s = BTreeSet::new();
        for k in &self.keys {
            s.extend(k.cols.iter().map(|c| c.0));
        }
        for i in &self.indexes {
            s.extend(i.cols.iter().map(|c| c.0));
            if let Some(p) = &i.pred {
                p.cols(&mut s);
            }
        }
        for p in &self.checks {
            p.cols(&mut s);
        }
        for f in &self.fks {
            s.extend(f.from.iter().copied());
            for t in &f.to {
                if let ToCol::Own(u) = t {
                    s.insert(*u);
                }
            }
        }
        s
    }

    /// Turn a step of the spec into a concrete statement request that is valid in the current
    /// state, or None when it cannot apply (counted as skipped).
    pub fn resolve_step(&self, s: &Step) -> Option<RStep> {
        if !self.exists {
            return None;
        }
        let col_names: BTreeSet<String> = self.cols.iter().map(|c| lower(&c.name)).collect();
        match s {
            Step::AddColumn { col, api_if_not_exists } => {
                let n = fresh(&col_names, &col.name);
                Some(RStep::AddColumn { col: resolve_col(col, self.next_uid, n, ColCtx::Add), api_if_not_exists: *api_if_not_exists })
            }
            Step::RenameColumn { col, to } => {
                let ok: Vec<&MCol> = self.cols.iter().filter(|c| Some(c.uid) != self.rename_blocked).collect();
                if ok.is_empty() {
                    return None;
                }
                let c = ok[*col as usize % ok.len()];
                Some(RStep::RenameColumn { uid: c.uid, from: c.name.clone(), to: fresh(&col_names, to) })
            }
            Step::DropColumn { col } => {
                if self.cols.len() < 2 {
                    return None;
                }
                let bad = self.undroppable();
                let ok: Vec<&MCol> = self.cols.iter().filter(|c| !bad.contains(&c.uid)).collect();
                if ok.is_empty() {
                    return None;
                }
                let c = ok[*col as usize % ok.len()];
                Some(RStep::DropColumn { uid: c.uid, name: c.name.clone() })
            }
            Step::RenameTable { to } => Some(RStep::RenameTable { from: self.name.clone(), to: fresh(&self.used_names(), to) }),
            Step::CreateIndex { name, unique, cols, pred, if_not_exists, reuse_name } => {
                let (name, already) = if *reuse_name && *if_not_exists && !self.indexes.is_empty() {
                    (self.indexes[name.len() % self.indexes.len()].name.clone(), true)
                } else {
                    (fresh(&self.used_names(), name), false)
                };
                let mut seen = BTreeSet::new();
                let mut rc = vec![];
                for (sel, ord) in cols {
                    let c = &self.cols[*sel as usize % self.cols.len()];
                    if seen.insert(c.uid) {
                        rc.push((c.uid, *ord));
                    }
                }
                let classes: Vec<(Uid, Class)> = self.cols.iter().map(|c| (c.uid, class_of(c.aff))).collect();
                let pick = |sel: u8| classes[sel as usize % classes.len()];
                let pred = pred.as_ref().map(|p| resolve_pred(p, &pick));
                let split_where = matches!(pred, Some(RPred::And(..))) && name.len() % 2 == 0;
                Some(RStep::CreateIndex { name, unique: *unique, cols: rc, pred, if_not_exists: *if_not_exists, already, split_where })
            }
            Step::DropIndex { idx, if_exists, missing } => {
                if !*missing && !self.indexes.is_empty() {
                    let i = &self.indexes[*idx as usize % self.indexes.len()];
                    Some(RStep::DropIndex { name: i.name.clone(), if_exists: *if_exists, exists: true })
                } else if *if_exists {
                    Some(RStep::DropIndex { name: fresh(&self.used_names(), "i-missing"), if_exists: true, exists: false })
                } else {
                    None
                }
            }
            Step::DropTable { if_exists, missing, opt } => {
                if !*missing {
                    Some(RStep::DropTable { name: self.name.clone(), if_exists: *if_exists, exists: true, opt: *opt })
                } else if *if_exists {
                    Some(RStep::DropTable { name: fresh(&self.used_names(), "t-missing"), if_exists: true, exists: false, opt: *opt })
                } else {
                    None
                }
            }
        }
    }

    /// what the statement is declared to do
    pub fn apply(&mut self, s: &RStep) {
        match s {
            RStep::AddColumn { col, .. } => {
                self.cols.push(mcol_of(col));
                self.next_uid += 1;
            }
            RStep::RenameColumn { uid, to, .. } => {
                if let Some(c) = self.cols.iter_mut().find(|c| c.uid == *uid) {
                    c.name = to.clone();
                }
            }
            RStep::DropColumn { uid, .. } => self.cols.retain(|c| c.uid != *uid),
            RStep::RenameTable { to, .. } => self.name = to.clone(),
            RStep::CreateIndex { name, unique, cols, pred, already, .. } => {
                if !*already {
                    self.indexes.push(MIndex { name: name.clone(), unique: *unique, cols: cols.iter().map(|(u, o)| (*u, *o == Ord3::Desc)).collect(), pred: pred.clone() });
                }
            }
            RStep::DropIndex { name, exists, .. } => {
                if *exists {
                    self.indexes.retain(|i| i.name != *name);
                }
            }
            RStep::DropTable { exists, .. } => {
                if *exists {
                    self.exists = false;
                    self.indexes.clear();
                }
            }
        }
    }
}

// ---------------------------------------------------------------------- SQLite's type-name rule

/// Column affinity from the declared type name: the five rules of
/// https://sqlite.org/datatype3.html section 3.1, in order.
pub fn affinity_of_decl(decl: &str) -> Aff {
    let u = decl.to_ascii_uppercase();
    if u.contains("INT") {
        Aff::Integer
    } else if u.contains("CHAR") || u.contains("CLOB") || u.contains("TEXT") {
        Aff::Text
    } else if u.contains("BLOB") || u.trim().is_empty() {
        Aff::Blob
    } else if u.contains("REAL") || u.contains("FLOA") || u.contains("DOUB") {
        Aff::Real
    } else {
        Aff::Numeric
    }
}
