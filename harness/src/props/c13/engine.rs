//! The observation side of C13: read the real engine's catalogue (pragmas, sqlite_master), probe
//! behaviour with the harness's own statements, and compare with the `Model`.

use super::model::*;
use super::spec::*;
use crate::lex::{enc_bytes, enc_ident, enc_str, lex_sqlite, Tok};
use crate::runner::*;
use crate::sqlite::{Cell, Db, Row, SqlError};
use crate::util::Dialect;
use std::collections::{BTreeMap, BTreeSet};

const D: Dialect = Dialect::Sqlite;

pub fn qi(s: &str) -> String {
    enc_ident(D, s)
}

fn short(msg: &str) -> String {
    // the class of an engine message without the names it mentions, so that signatures are stable
    let msg = msg.trim_start_matches("prepare: ").trim_start_matches("step: ");
    if let Some(rest) = msg.strip_prefix("near \"") {
        // near "TOKEN": syntax error
        let tok: String = rest.chars().take_while(|c| *c != '"').take(16).collect();
        return sig_clean(&format!("syntax-error-near-{tok}"));
    }
    if msg.starts_with("index ") && msg.ends_with(" already exists") {
        return "index-already-exists".into();
    }
    if let Some(i) = msg.find(" after rename: ").or_else(|| msg.find(" after drop column: ")).or_else(|| msg.find(" after add column: ")) {
        let tail = &msg[i + 1..];
        return short_plain(tail);
    }
    short_plain(msg)
}

fn short_plain(msg: &str) -> String {
    let mut out = String::new();
    let mut in_q = false;
    for ch in msg.chars() {
        if ch == '"' {
            in_q = !in_q;
            continue;
        }
        if !in_q {
            out.push(ch);
        }
    }
    // "UNIQUE constraint failed: t.a", "no such column: x", "duplicate column name: x": the head names the class
    let heads = ["constraint failed", "no such column", "no such table", "no such index", "duplicate column name", "unknown column"];
    if let Some(i) = out.find(':') {
        if heads.iter().any(|h| out[..i].contains(h)) {
            out.truncate(i);
        }
    }
    let out = out.split_whitespace().collect::<Vec<_>>().join("-");
    sig_clean(&out.chars().take(60).collect::<String>())
}

pub fn engine_class(e: &SqlError) -> String {
    short(&e.msg)
}

/// harness-side statement: a failure here is the harness's problem, never a verdict
fn q(db: &Db, sql: &str) -> Result<Vec<Row>, Stop> {
    db.rows(sql).map_err(|e| Stop::Undecided(format!("harness-sql/{}", short(&e.msg))))
}

fn text(c: &Cell) -> String {
    match c {
        Cell::Text(s) => s.clone(),
        Cell::Int(i) => i.to_string(),
        Cell::Null => String::new(),
        other => format!("{other:?}"),
    }
}
fn int(c: &Cell) -> i64 {
    match c {
        Cell::Int(i) => *i,
        _ => -1,
    }
}

#[derive(Debug, Clone)]
pub struct XCol {
    pub name: String,
    pub ty: String,
    pub notnull: bool,
    pub dflt: Option<String>,
    pub pk: i64,
    pub hidden: i64,
}

pub fn table_xinfo(db: &Db, t: &str) -> Result<Vec<XCol>, Stop> {
    Ok(q(db, &format!("PRAGMA table_xinfo({})", qi(t)))?
        .iter()
        .map(|r| XCol {
            name: text(&r[1]),
            ty: text(&r[2]),
            notnull: int(&r[3]) != 0,
            dflt: if r[4] == Cell::Null { None } else { Some(text(&r[4])) },
            pk: int(&r[5]),
            hidden: int(&r[6]),
        })
        .collect())
}

#[derive(Debug, Clone, PartialEq, Eq, PartialOrd, Ord)]
pub struct XIndex {
    pub name: String,
    pub unique: bool,
    pub origin: String,
    pub partial: bool,
    /// key columns: (name, desc, collation)
    pub cols: Vec<(String, bool, String)>,
}

pub fn indexes(db: &Db, t: &str) -> Result<Vec<XIndex>, Stop> {
    let mut out = vec![];
    for r in q(db, &format!("PRAGMA index_list({})", qi(t)))? {
        let name = text(&r[1]);
        let mut cols = vec![];
        for c in q(db, &format!("PRAGMA index_xinfo({})", qi(&name)))? {
            if int(&c[5]) == 1 {
                cols.push((if c[2] == Cell::Null { "<expr>".to_string() } else { text(&c[2]) }, int(&c[3]) != 0, text(&c[4])));
            }
        }
        out.push(XIndex { name, unique: int(&r[2]) != 0, origin: text(&r[3]), partial: int(&r[4]) != 0, cols });
    }
    Ok(out)
}

#[derive(Debug, Clone, PartialEq, Eq, PartialOrd, Ord)]
pub struct XFk {
    pub table: String,
    pub pairs: Vec<(String, String)>,
    pub on_update: String,
    pub on_delete: String,
}

pub fn foreign_keys(db: &Db, t: &str) -> Result<Vec<XFk>, Stop> {
    let mut by_id: BTreeMap<i64, (XFk, Vec<(i64, String, String)>)> = BTreeMap::new();
    for r in q(db, &format!("PRAGMA foreign_key_list({})", qi(t)))? {
        let e = by_id.entry(int(&r[0])).or_insert_with(|| (XFk { table: text(&r[2]), pairs: vec![], on_update: text(&r[5]), on_delete: text(&r[6]) }, vec![]));
        e.1.push((int(&r[1]), text(&r[3]), if r[4] == Cell::Null { "<none>".into() } else { text(&r[4]) }));
    }
    let mut out = vec![];
    for (_, (mut fk, mut pairs)) in by_id {
        pairs.sort();
        fk.pairs = pairs.into_iter().map(|(_, a, b)| (a, b)).collect();
        out.push(fk);
    }
    out.sort();
    Ok(out)
}

#[derive(Debug, Clone, PartialEq, Eq, PartialOrd, Ord)]
pub struct XObj {
    pub schema: String,
    pub kind: String,
    pub name: String,
    pub tbl: String,
    pub sql: Option<String>,
}

pub fn objects(db: &Db) -> Result<Vec<XObj>, Stop> {
    let rows = q(
        db,
        "SELECT 'main', type, name, tbl_name, sql FROM sqlite_master UNION ALL SELECT 'temp', type, name, tbl_name, sql FROM sqlite_temp_master",
    )?;
    Ok(rows
        .iter()
        .map(|r| XObj { schema: text(&r[0]), kind: text(&r[1]), name: text(&r[2]), tbl: text(&r[3]), sql: if r[4] == Cell::Null { None } else { Some(text(&r[4])) } })
        .collect())
}

// ----------------------------------------------------------------------------------------- values

#[derive(Clone, Debug, PartialEq)]
pub enum V {
    Null,
    Int(i64),
    Real(f64),
    Text(String),
    Blob(Vec<u8>),
}

fn vsql(v: &V) -> String {
    match v {
        V::Null => "NULL".into(),
        V::Int(i) => i.to_string(),
        V::Real(f) => format!("{f:?}"),
        V::Text(s) => enc_str(D, s),
        V::Blob(b) => enc_bytes(D, b),
    }
}

/// variant `v` of a value for the column at position `j`: distinct per (j, v), non-NULL, and of
/// the column's own storage class so that no conversion is involved
fn val(class: Class, j: usize, v: usize) -> V {
    match class {
        Class::Num => V::Int(100 + 10 * j as i64 + v as i64),
        Class::Text => V::Text(format!("k{j}v{v}")),
        Class::Blob => V::Blob(vec![j as u8, v as u8]),
    }
}

struct Tbl<'a> {
    m: &'a Model,
    /// position of the rowid alias column (single-column PRIMARY KEY whose engine type is INTEGER)
    alias: Option<usize>,
}

impl<'a> Tbl<'a> {
    fn class(&self, j: usize) -> Class {
        if Some(j) == self.alias {
            Class::Num
        } else {
            class_of(self.m.cols[j].aff)
        }
    }
    fn row(&self, variant: &dyn Fn(usize) -> usize) -> Vec<V> {
        (0..self.m.cols.len()).map(|j| val(self.class(j), j, variant(j))).collect()
    }
    fn insert_sql(&self, cols: &[usize], vals: &[V]) -> String {
        if cols.is_empty() {
            return format!("INSERT INTO {} DEFAULT VALUES", qi(&self.m.name));
        }
        format!(
            "INSERT INTO {} ({}) VALUES ({})",
            qi(&self.m.name),
            cols.iter().map(|j| qi(&self.m.cols[*j].name)).collect::<Vec<_>>().join(", "),
            vals.iter().map(vsql).collect::<Vec<_>>().join(", ")
        )
    }
    fn insert_full(&self, db: &Db, vals: &[V]) -> Result<(), SqlError> {
        let cols: Vec<usize> = (0..self.m.cols.len()).collect();
        db.exec(&self.insert_sql(&cols, vals))
    }
    fn pos(&self, uid: Uid) -> usize {
        self.m.cols.iter().position(|c| c.uid == uid).expect("uid")
    }
}

fn savepoint<T>(db: &Db, f: impl FnOnce() -> Result<T, Stop>) -> Result<T, Stop> {
    q(db, "SAVEPOINT c13p")?;
    let r = f();
    let _ = db.exec("ROLLBACK TO c13p");
    let _ = db.exec("RELEASE c13p");
    r
}

fn ignore_checks(db: &Db, on: bool) -> Result<(), Stop> {
    q(db, if on { "PRAGMA ignore_check_constraints = ON" } else { "PRAGMA ignore_check_constraints = OFF" }).map(|_| ())
}

/// the harness's own fully parenthesised rendering of a predicate
pub fn ref_pred(p: &RPred, m: &Model) -> String {
    match p {
        RPred::Cmp { col, op, lit } => {
            let o = match op {
                CmpOp::Eq => "=",
                CmpOp::Ne => "<>",
                CmpOp::Lt => "<",
                CmpOp::Le => "<=",
                CmpOp::Gt => ">",
                CmpOp::Ge => ">=",
            };
            let l = match lit {
                PLit::Int(n) => n.to_string(),
                PLit::Text(s) => enc_str(D, s),
            };
            format!("({} {o} {l})", qi(&m.col_name(*col)))
        }
        RPred::IsNull(c) => format!("({} IS NULL)", qi(&m.col_name(*c))),
        RPred::NotNull(c) => format!("({} IS NOT NULL)", qi(&m.col_name(*c))),
        RPred::And(a, b) => format!("({} AND {})", ref_pred(a, m), ref_pred(b, m)),
        RPred::Or(a, b) => format!("({} OR {})", ref_pred(a, m), ref_pred(b, m)),
        RPred::Not(a) => format!("(NOT {})", ref_pred(a, m)),
    }
}

// -------------------------------------------------------------------------------- catalogue compare

fn expected_objects(m: &Model) -> Vec<(String, String, String, String)> {
    let mut v: Vec<(String, String, String, String)> = PARENTS.iter().map(|p| ("main".to_string(), "table".to_string(), p.0.to_string(), p.0.to_string())).collect();
    if m.exists {
        let schema = if m.temp { "temp" } else { "main" };
        v.push((schema.into(), "table".into(), m.name.clone(), m.name.clone()));
        for i in &m.indexes {
            v.push((schema.into(), "index".into(), i.name.clone(), m.name.clone()));
        }
    }
    v.sort();
    v
}

/// declared PRIMARY KEY / UNIQUE constraints as the engine keeps them: one automatic index per
/// distinct ordered column list (the first declaration's directions; `pk` if any of them is the
/// primary key); a single-column INTEGER primary key is the rowid and has no index
fn expected_auto_indexes(m: &Model, alias: Option<Uid>) -> Vec<(Vec<(String, bool, String)>, String)> {
    let mut acc: Vec<(Vec<Uid>, Vec<bool>, bool)> = vec![];
    for k in &m.keys {
        let cols: Vec<Uid> = k.cols.iter().map(|c| c.0).collect();
        if k.pk && cols.len() == 1 && Some(cols[0]) == alias {
            continue;
        }
        if let Some(e) = acc.iter_mut().find(|e| e.0 == cols) {
            e.2 |= k.pk;
        } else {
            acc.push((cols, k.cols.iter().map(|c| c.1).collect(), k.pk));
        }
    }
    let mut out: Vec<_> = acc
        .into_iter()
        .map(|(cols, desc, pk)| {
            (
                cols.iter().zip(desc).map(|(u, d)| (m.col_name(*u), d, coll(m.col(*u)))).collect::<Vec<_>>(),
                if pk { "pk".to_string() } else { "u".to_string() },
            )
        })
        .collect();
    out.sort();
    out
}

fn coll(c: &MCol) -> String {
    if c.nocase { "NOCASE".into() } else { "BINARY".into() }
}

#[allow(dead_code)]
pub struct Facts {
    pub alias: Option<usize>,
}

pub fn verify(db: &Db, m: &Model, after: &str, obs: &mut Obs) -> R {
    // 1. the objects that exist, and where
    let objs = objects(db)?;
    let got: Vec<(String, String, String, String)> = {
        let mut v: Vec<_> = objs.iter().filter(|o| !o.name.to_ascii_lowercase().starts_with("sqlite_")).map(|o| (o.schema.clone(), o.kind.clone(), o.name.clone(), o.tbl.clone())).collect();
        v.sort();
        v
    };
    let want = expected_objects(m);
    if got != want {
        let what = if got.iter().filter(|o| o.1 == "table").count() != want.iter().filter(|o| o.1 == "table").count() || got.iter().filter(|o| o.1 == "table").ne(want.iter().filter(|o| o.1 == "table")) {
            "tables"
        } else {
            "indexes"
        };
        return fail(format!("catalogue/objects/{what}"), format!("after {after}: sqlite_master lists {got:?}, declared {want:?}"));
    }
    if !m.exists {
        return Ok(());
    }
    // 2. columns
    let xi = table_xinfo(db, &m.name)?;
    let names: Vec<&str> = xi.iter().map(|c| c.name.as_str()).collect();
    let want_names: Vec<&str> = m.cols.iter().map(|c| c.name.as_str()).collect();
    if names != want_names {
        return fail("catalogue/columns/names-or-order", format!("after {after}: table_xinfo columns {names:?}, declared {want_names:?}"));
    }
    let pk = m.pk_cols();
    for (j, (x, c)) in xi.iter().zip(&m.cols).enumerate() {
        if x.hidden != 0 {
            return fail("catalogue/columns/hidden", format!("after {after}: column {:?} is hidden ({})", x.name, x.hidden));
        }
        if let Some(nn) = c.notnull {
            if x.notnull != nn {
                return fail(
                    if nn { "catalogue/columns/not-null-lost" } else { "catalogue/columns/not-null-spurious" },
                    format!("after {after}: column {:?} notnull={} but declared {}", x.name, x.notnull, if nn { "NOT NULL" } else { "nullable" }),
                );
            }
        } else {
            obs.label("nullability-contradictory-request");
        }
        let want_pk = pk.iter().position(|u| *u == c.uid).map(|p| p as i64 + 1).unwrap_or(0);
        if x.pk != want_pk {
            return fail("catalogue/columns/primary-key", format!("after {after}: column {:?} (#{j}) has pk position {}, declared {want_pk}", x.name, x.pk));
        }
        if x.dflt.is_some() != c.default.is_some() {
            return fail(
                if c.default.is_some() { "catalogue/columns/default-lost" } else { "catalogue/columns/default-spurious" },
                format!("after {after}: column {:?} dflt_value {:?}, declared default {:?}", x.name, x.dflt, c.default),
            );
        }
        // 3. affinity carried by the written type name
        let decl = affinity_of_decl(&x.ty);
        if decl != c.aff {
            return fail(
                format!("affinity/{}/{}-not-{}", c.ty.kind(), decl.name(), c.aff.name()),
                format!("after {after}: column {:?} of abstract type {:?} is declared {:?}: affinity {} by the type-name rule, intended {}", x.name, c.ty, x.ty, decl.name(), c.aff.name()),
            );
        }
    }
    let alias = if pk.len() == 1 {
        let j = m.cols.iter().position(|c| c.uid == pk[0]).unwrap();
        if xi[j].ty.eq_ignore_ascii_case("INTEGER") {
            Some(j)
        } else {
            None
        }
    } else {
        None
    };
    let alias_uid = alias.map(|j| m.cols[j].uid);
    // 4. indexes
    let ix = indexes(db, &m.name)?;
    let mut got_auto: Vec<(Vec<(String, bool, String)>, String)> = ix.iter().filter(|i| i.origin != "c").map(|i| (i.cols.clone(), i.origin.clone())).collect();
    got_auto.sort();
    for i in ix.iter().filter(|i| i.origin != "c") {
        if !i.unique || i.partial {
            return fail("catalogue/constraint-index/flags", format!("after {after}: automatic index {i:?}"));
        }
    }
    let want_auto = expected_auto_indexes(m, alias_uid);
    if got_auto != want_auto {
        let g: BTreeSet<Vec<String>> = got_auto.iter().map(|e| e.0.iter().map(|c| c.0.clone()).collect()).collect();
        let w: BTreeSet<Vec<String>> = want_auto.iter().map(|e| e.0.iter().map(|c| c.0.clone()).collect()).collect();
        let what = if g != w {
            "columns"
        } else if got_auto.iter().map(|e| &e.1).ne(want_auto.iter().map(|e| &e.1)) {
            "origin"
        } else {
            "direction-or-collation"
        };
        return fail(format!("catalogue/constraint-index/{what}"), format!("after {after}: PRIMARY KEY / UNIQUE constraints kept by the engine {got_auto:?}, declared {want_auto:?}"));
    }
    let got_c: Vec<&XIndex> = ix.iter().filter(|i| i.origin == "c").collect();
    if got_c.len() != m.indexes.len() {
        return fail("catalogue/index/count", format!("after {after}: index_list has {} created indexes, declared {}", got_c.len(), m.indexes.len()));
    }
    for w in &m.indexes {
        let Some(g) = got_c.iter().find(|g| g.name == w.name) else {
            return fail("catalogue/index/name", format!("after {after}: no index named {:?} in index_list: {:?}", w.name, got_c.iter().map(|g| &g.name).collect::<Vec<_>>()));
        };
        if g.unique != w.unique {
            return fail(if w.unique { "catalogue/index/unique-lost" } else { "catalogue/index/unique-spurious" }, format!("after {after}: index {:?} unique={}, declared {}", w.name, g.unique, w.unique));
        }
        if g.partial != w.pred.is_some() {
            return fail(if w.pred.is_some() { "catalogue/index/partial-lost" } else { "catalogue/index/partial-spurious" }, format!("after {after}: index {:?} partial={}, declared predicate {:?}", w.name, g.partial, w.pred));
        }
        let wc: Vec<(String, bool, String)> = w.cols.iter().map(|(u, d)| (m.col_name(*u), *d, coll(m.col(*u)))).collect();
        if g.cols != wc {
            let what = if g.cols.iter().map(|c| &c.0).ne(wc.iter().map(|c| &c.0)) {
                "columns"
            } else if g.cols.iter().map(|c| c.1).ne(wc.iter().map(|c| c.1)) {
                "direction"
            } else {
                "collation"
            };
            return fail(format!("catalogue/index/{what}"), format!("after {after}: index {:?} key columns {:?}, declared {:?}", w.name, g.cols, wc));
        }
    }
    // 5. foreign keys
    let got_fk = foreign_keys(db, &m.name)?;
    let mut want_fk: Vec<XFk> = m
        .fks
        .iter()
        .map(|f| XFk {
            table: match &f.parent {
                ParentRef::Other(i) => PARENTS[*i].0.to_string(),
                ParentRef::SelfTable => m.name.clone(),
            },
            pairs: f
                .from
                .iter()
                .zip(&f.to)
                .map(|(a, b)| {
                    (
                        m.col_name(*a),
                        match b {
                            ToCol::Name(n) => n.clone(),
                            ToCol::Own(u) => m.col_name(*u),
                        },
                    )
                })
                .collect(),
            on_update: f.on_update.map(|a| a.sql()).unwrap_or("NO ACTION").to_string(),
            on_delete: f.on_delete.map(|a| a.sql()).unwrap_or("NO ACTION").to_string(),
        })
        .collect();
    want_fk.sort();
    if got_fk != want_fk {
        let strip = |v: &Vec<XFk>| v.iter().map(|f| (f.table.clone(), f.pairs.clone())).collect::<Vec<_>>();
        let what = if strip(&got_fk) != strip(&want_fk) { "columns-or-table" } else { "actions" };
        return fail(format!("catalogue/foreign-key/{what}"), format!("after {after}: foreign_key_list {got_fk:?}, declared {want_fk:?}"));
    }
    // 6. AUTOINCREMENT in the stored definition
    let schema = if m.temp { "temp" } else { "main" };
    let tsql = objs.iter().find(|o| o.kind == "table" && o.name == m.name).and_then(|o| o.sql.clone()).unwrap_or_default();
    let toks = match lex_sqlite(&tsql) {
        Ok(toks) => toks,
        Err(_) => return undecided("stored-table-sql-does-not-lex"),
    };
    let has_ai_word = toks.iter().any(|t| t.tok.is_word("AUTOINCREMENT"));
    // names of table-level constraints live only in the stored definition
    let got_names: Vec<String> = toks
        .windows(2)
        .filter_map(|w| match (&w[0].tok, &w[1].tok) {
            (c, Tok::Ident(n)) if c.is_word("CONSTRAINT") => Some(n.clone()),
            _ => None,
        })
        .collect();
    if got_names != m.constraint_names {
        return fail("catalogue/constraint-names", format!("after {after}: the stored definition names the constraints {got_names:?}, declared {:?}\n{tsql}", m.constraint_names));
    }
    let want_ai = m.cols.iter().any(|c| c.autoinc);
    if has_ai_word != want_ai {
        return fail(if want_ai { "autoincrement/lost" } else { "autoincrement/spurious" }, format!("after {after}: stored definition {tsql:?}, AUTOINCREMENT declared: {want_ai}"));
    }
    if want_ai && !objs.iter().any(|o| o.schema == schema && o.name == "sqlite_sequence") {
        return fail("autoincrement/no-sqlite_sequence", format!("after {after}: AUTOINCREMENT declared but {schema}.sqlite_sequence does not exist"));
    }
    // 7. behaviour
    let t = Tbl { m, alias };
    let r = probes(db, &t, &objs, after, obs);
    let _ = db.exec("PRAGMA ignore_check_constraints = OFF");
    r
}

fn typeof_expect(aff: Aff) -> [&'static str; 4] {
    match aff {
        Aff::Integer | Aff::Numeric => ["integer", "integer", "real", "blob"],
        Aff::Real => ["real", "real", "real", "blob"],
        Aff::Text => ["text", "text", "text", "blob"],
        Aff::Blob => ["text", "integer", "real", "blob"],
    }
}

enum Exp {
    Cell(Cell),
    Timestamp,
    Skip,
}

/// what the engine stores when the declared default is applied to a column of this affinity
fn stored_default(l: &Lit, aff: Aff) -> Exp {
    let num = |n: i64| match aff {
        Aff::Integer | Aff::Numeric | Aff::Blob => Exp::Cell(Cell::Int(n)),
        Aff::Real => Exp::Cell(Cell::Real(n as f64)),
        Aff::Text => Exp::Cell(Cell::Text(n.to_string())),
    };
    match l {
        Lit::Int(n) => num(*n),
        Lit::Bool(b) => num(*b as i64),
        Lit::Float(i) => {
            let k = *i as usize % FLOATS.len();
            match aff {
                Aff::Text => Exp::Cell(Cell::Text(FLOATS_TEXT[k].to_string())),
                _ => Exp::Cell(Cell::Real(FLOATS[k])),
            }
        }
        Lit::Null | Lit::NullValue => Exp::Cell(Cell::Null),
        Lit::CurrentTimestamp => Exp::Timestamp,
        Lit::Text(s) => match aff {
            Aff::Text | Aff::Blob => Exp::Cell(Cell::Text(s.clone())),
            _ => {
                if !s.chars().any(|c| c.is_ascii_digit()) {
                    Exp::Cell(Cell::Text(s.clone())) // not a numeric literal: stays text
                } else if s.len() < 18 && s.trim_start_matches('-').chars().all(|c| c.is_ascii_digit()) && s.matches('-').count() <= 1 && !s.ends_with('-') {
                    match s.parse::<i64>() {
                        Ok(n) => num(n),
                        Err(_) => Exp::Skip,
                    }
                } else {
                    Exp::Skip
                }
            }
        },
    }
}

fn is_timestamp(s: &str) -> bool {
    let b = s.as_bytes();
    b.len() == 19
        && b.iter().enumerate().all(|(i, ch)| match i {
            4 | 7 => *ch == b'-',
            10 => *ch == b' ',
            13 | 16 => *ch == b':',
            _ => ch.is_ascii_digit(),
        })
}

fn probes(db: &Db, t: &Tbl, objs: &[XObj], after: &str, obs: &mut Obs) -> R {
    let m = t.m;
    let n = m.cols.len();
    let tq = qi(&m.name);
    let all_cols: Vec<String> = m.cols.iter().map(|c| qi(&c.name)).collect();
    ignore_checks(db, true)?;

    // ---- storage affinity, empirically: typeof() of stored probes
    let probe_vals = [V::Text("12".into()), V::Int(12), V::Real(1.5), V::Blob(vec![0])];
    let mut seen: Vec<Vec<String>> = vec![vec![]; n];
    for (k, p) in probe_vals.iter().enumerate() {
        let vals: Vec<V> = (0..n).map(|j| if Some(j) == t.alias && k >= 2 { V::Int(77) } else { p.clone() }).collect();
        let r = savepoint(db, || {
            if let Err(e) = t.insert_full(db, &vals) {
                return undecided(format!("probe-insert/affinity/{}", short(&e.msg)));
            }
            q(db, &format!("SELECT {} FROM {tq}", all_cols.iter().map(|c| format!("typeof({c})")).collect::<Vec<_>>().join(", ")))
        })?;
        if r.len() != 1 {
            return undecided("probe-read/affinity");
        }
        for j in 0..n {
            seen[j].push(text(&r[0][j]));
        }
    }
    for j in 0..n {
        let want: Vec<&str> = if Some(j) == t.alias { vec!["integer"; 4] } else { typeof_expect(m.cols[j].aff).to_vec() };
        if seen[j] != want {
            // the declared type name already maps to the intended affinity by the documented rule;
            // the engine disagreeing with the rule means the oracle's rule is wrong
            return undecided(format!("affinity-rule-vs-typeof/{}", m.cols[j].aff.name()));
        }
    }
    obs.label("probe/affinity");

    // ---- defaults: a default row, or the smallest explicit insert the declaration allows
    let explicit: Vec<usize> = (0..n)
        .filter(|j| {
            let c = &m.cols[*j];
            Some(*j) != t.alias && c.notnull != Some(false) && c.default.as_ref().map(|d| d.is_null()).unwrap_or(true)
        })
        .collect();
    let base = t.row(&|_| 0);
    let row = savepoint(db, || {
        let vals: Vec<V> = explicit.iter().map(|j| base[*j].clone()).collect();
        if let Err(e) = db.exec(&t.insert_sql(&explicit, &vals)) {
            return undecided(format!("probe-insert/default/{}", short(&e.msg)));
        }
        q(db, &format!("SELECT {} FROM {tq}", all_cols.join(", ")))
    })?;
    if row.len() != 1 {
        return undecided("probe-read/default");
    }
    for j in 0..n {
        if explicit.contains(&j) || Some(j) == t.alias {
            continue;
        }
        let c = &m.cols[j];
        let got = &row[0][j];
        match &c.default {
            None => {
                if *got != Cell::Null {
                    return fail("default-value/spurious", format!("after {after}: column {:?} has no declared default but a default row holds {got:?}", c.name));
                }
            }
            Some(l) => {
                let ok = match stored_default(l, c.aff) {
                    Exp::Skip => {
                        obs.label("default-value-not-compared");
                        true
                    }
                    Exp::Timestamp => matches!(got, Cell::Text(s) if is_timestamp(s)),
                    Exp::Cell(w) => *got == w,
                };
                if !ok {
                    return fail(format!("default-value/{}", l.kind()), format!("after {after}: column {:?} ({:?}, {}) declared DEFAULT {l:?}; a default row holds {got:?}", c.name, c.ty, c.aff.name()));
                }
                obs.label(format!("probe/default/{}", l.kind()));
            }
        }
    }

    // ---- collation given through extra(): 'abc' = 'ABC' exactly on the NOCASE columns
    if m.cols.iter().any(|c| c.nocase) {
        let vals: Vec<V> = (0..n).map(|j| if Some(j) == t.alias { V::Int(5) } else { V::Text("abc".into()) }).collect();
        let r = savepoint(db, || {
            if let Err(e) = t.insert_full(db, &vals) {
                return undecided(format!("probe-insert/collate/{}", short(&e.msg)));
            }
            q(db, &format!("SELECT {} FROM {tq}", all_cols.iter().map(|c| format!("({c} = 'ABC')")).collect::<Vec<_>>().join(", ")))
        })?;
        for j in 0..n {
            if Some(j) == t.alias {
                continue;
            }
            let got = r.get(0).map(|x| int(&x[j])).unwrap_or(-1);
            if got != m.cols[j].nocase as i64 {
                return fail("extra/collation", format!("after {after}: column {:?} declared nocase={} but 'abc' = 'ABC' gives {got}", m.cols[j].name, m.cols[j].nocase));
            }
        }
        obs.label("probe/collation");
    }

    // ---- AUTOINCREMENT behaviour of the rowid alias
    if let Some(aj) = t.alias {
        let want_ai = m.cols[aj].autoinc;
        let mut first = t.row(&|_| 0);
        first[aj] = V::Int(100);
        let second = t.row(&|_| 1);
        let others: Vec<usize> = (0..n).filter(|j| *j != aj).collect();
        let got = savepoint(db, || {
            if let Err(e) = t.insert_full(db, &first) {
                return undecided(format!("probe-insert/autoincrement/{}", short(&e.msg)));
            }
            q(db, &format!("DELETE FROM {tq}"))?;
            let vals: Vec<V> = others.iter().map(|j| second[*j].clone()).collect();
            if let Err(e) = db.exec(&t.insert_sql(&others, &vals)) {
                return undecided(format!("probe-insert/autoincrement2/{}", short(&e.msg)));
            }
            q(db, &format!("SELECT {} FROM {tq}", all_cols[aj]))
        })?;
        let got = got.get(0).map(|r| int(&r[0])).unwrap_or(-1);
        let want = if want_ai { 101 } else { 1 };
        if got != want {
            return fail(
                if want_ai { "autoincrement/not-in-effect" } else { "autoincrement/unexpected" },
                format!("after {after}: after deleting the row with key 100 the next generated key of {:?} is {got}, expected {want} (AUTOINCREMENT declared: {want_ai})", m.cols[aj].name),
            );
        }
        obs.label(if want_ai { "probe/autoincrement" } else { "probe/rowid-reuse" });
    } else if m.cols.iter().any(|c| c.autoinc) {
        return fail("autoincrement/not-rowid-alias", format!("after {after}: AUTOINCREMENT declared on a column that is not the rowid alias"));
    }

    // ---- uniqueness: which pairs of rows conflict
    struct UKey {
        cols: Vec<usize>,
        pred: Option<String>,
        what: String,
    }
    let mut ukeys: Vec<UKey> = vec![];
    for k in &m.keys {
        ukeys.push(UKey { cols: k.cols.iter().map(|c| t.pos(c.0)).collect(), pred: None, what: if k.pk { "primary-key".into() } else { "unique".into() } });
    }
    for i in m.indexes.iter().filter(|i| i.unique) {
        ukeys.push(UKey { cols: i.cols.iter().map(|c| t.pos(c.0)).collect(), pred: i.pred.as_ref().map(|p| ref_pred(p, m)), what: "unique-index".into() });
    }
    let mut eq_sets: Vec<BTreeSet<usize>> = vec![BTreeSet::new()];
    for k in &ukeys {
        let full: BTreeSet<usize> = k.cols.iter().copied().collect();
        eq_sets.push(full.clone());
        if k.cols.len() >= 2 {
            let mut less = full.clone();
            less.remove(k.cols.last().unwrap());
            eq_sets.push(less);
        }
    }
    eq_sets.sort();
    eq_sets.dedup();
    eq_sets.truncate(10);
    let row_a = t.row(&|_| 0);
    let pred_list: Vec<String> = ukeys.iter().filter_map(|k| k.pred.clone()).collect();
    let eval_preds = |vals: &[V]| -> Result<Vec<bool>, Stop> {
        if pred_list.is_empty() {
            return Ok(vec![]);
        }
        savepoint(db, || {
            if let Err(e) = t.insert_full(db, vals) {
                return undecided(format!("probe-insert/unique-pred/{}", short(&e.msg)));
            }
            let r = q(db, &format!("SELECT {} FROM {tq}", pred_list.iter().map(|p| format!("({p} IS TRUE)")).collect::<Vec<_>>().join(", ")))?;
            Ok(r.get(0).map(|x| x.iter().map(|c| int(c) == 1).collect()).unwrap_or_default())
        })
    };
    if !ukeys.is_empty() {
        let pa = eval_preds(&row_a)?;
        for e in &eq_sets {
            let row_b = t.row(&|j| if e.contains(&j) { 0 } else { 1 });
            let pb = eval_preds(&row_b)?;
            let mut pi = 0;
            let mut culprit = None;
            for k in &ukeys {
                let in_index = if k.pred.is_some() {
                    let r = pa.get(pi).copied().unwrap_or(false) && pb.get(pi).copied().unwrap_or(false);
                    pi += 1;
                    r
                } else {
                    true
                };
                if in_index && k.cols.iter().all(|c| e.contains(c)) && culprit.is_none() {
                    culprit = Some(k.what.clone());
                }
            }
            let outcome = savepoint(db, || {
                if let Err(er) = t.insert_full(db, &row_a) {
                    return undecided(format!("probe-insert/unique/{}", short(&er.msg)));
                }
                Ok(t.insert_full(db, &row_b))
            })?;
            match (&outcome, &culprit) {
                (Ok(()), None) => {}
                (Err(er), Some(_)) if er.msg.contains("UNIQUE constraint failed") => {}
                (Ok(()), Some(w)) => {
                    return fail(format!("uniqueness/not-enforced/{w}"), format!("after {after}: two rows equal on columns {:?} were both accepted although a {w} over {:?} is declared", e, ukeys.iter().map(|k| &k.cols).collect::<Vec<_>>()))
                }
                (Err(er), None) if er.msg.contains("UNIQUE constraint failed") => {
                    return fail("uniqueness/spurious", format!("after {after}: two rows equal only on columns {e:?} conflict ({}) although no declared key is covered", er.msg))
                }
                (Err(er), _) => return undecided(format!("probe-insert/unique2/{}", short(&er.msg))),
            }
        }
        obs.label("probe/uniqueness");
    }

    // ---- CHECK constraints and partial-index predicates on candidate rows
    let mut checks: Vec<String> = vec![];
    for c in &m.cols {
        for p in &c.checks {
            checks.push(ref_pred(p, m));
        }
    }
    for p in &m.checks {
        checks.push(ref_pred(p, m));
    }
    // (index name, predicate as stored by the engine, reference predicate)
    let mut partial: Vec<(String, String, String)> = vec![];
    for i in &m.indexes {
        if let Some(p) = &i.pred {
            let sql = objs.iter().find(|o| o.kind == "index" && o.name == i.name).and_then(|o| o.sql.clone()).unwrap_or_default();
            let Ok(toks) = lex_sqlite(&sql) else { return undecided("stored-index-sql-does-not-lex") };
            let mut depth = 0i32;
            let mut at = None;
            for tk in &toks {
                match &tk.tok {
                    Tok::LParen => depth += 1,
                    Tok::RParen => depth -= 1,
                    w if depth == 0 && w.is_word("WHERE") => {
                        at = Some(tk.end);
                        break;
                    }
                    _ => {}
                }
            }
            let Some(at) = at else {
                return fail("catalogue/index/partial-lost", format!("after {after}: stored definition of index {:?} has no WHERE: {sql:?}", i.name));
            };
            partial.push((i.name.clone(), sql[at..].to_string(), ref_pred(p, m)));
        }
    }
    if checks.is_empty() && partial.is_empty() {
        return Ok(());
    }
    let mut lits: Vec<(Uid, PLit)> = vec![];
    for c in &m.cols {
        for p in &c.checks {
            p.lits(&mut lits);
        }
    }
    for p in &m.checks {
        p.lits(&mut lits);
    }
    for i in &m.indexes {
        if let Some(p) = &i.pred {
            p.lits(&mut lits);
        }
    }
    let mut cands: Vec<Vec<V>> = vec![];
    for j in 0..n {
        let c = &m.cols[j];
        let class = t.class(j);
        let mut v = vec![val(class, j, 0), val(class, j, 1)];
        for (u, l) in &lits {
            if *u != c.uid {
                continue;
            }
            match (l, class) {
                (PLit::Int(k), Class::Num) => v.extend([V::Int(k - 1), V::Int(*k), V::Int(k + 1)]),
                (PLit::Text(s), Class::Text) => v.extend([V::Text(s.clone()), V::Text(format!("{s}a")), V::Text(String::new()), V::Text(s.to_uppercase())]),
                _ => {}
            }
        }
        if c.notnull == Some(false) && Some(j) != t.alias && !pk_has(m, c.uid) {
            v.push(V::Null);
        }
        v.dedup();
        cands.push(v);
    }
    let rows_n = 14usize;
    let mut falsified = 0usize;
    let mut passed = 0usize;
    for r in 0..rows_n {
        let vals: Vec<V> = (0..n)
            .map(|j| {
                let c = &cands[j];
                c[(r * (2 * j + 1) + j + r / 3) % c.len()].clone()
            })
            .collect();
        // what the declared predicates say about this row (reference rendering, engine-evaluated)
        let sel: Vec<String> = checks.iter().map(|c| format!("({c} IS FALSE)")).chain(partial.iter().map(|(_, stored, reference)| format!("(({stored}) IS ({reference}))"))).collect();
        let verdicts = savepoint(db, || {
            ignore_checks(db, true)?;
            if let Err(e) = t.insert_full(db, &vals) {
                return undecided(format!("probe-insert/check/{}", short(&e.msg)));
            }
            match db.rows(&format!("SELECT {} FROM {tq}", sel.join(", "))) {
                Ok(r) => Ok(Ok(r)),
                Err(e) => Ok(Err(e)),
            }
        })?;
        let verdicts = match verdicts {
            Ok(v) => v,
            Err(e) => {
                // the reference rendering alone is plain; an error comes from the stored predicate text
                if partial.is_empty() {
                    return undecided(format!("harness-sql/{}", short(&e.msg)));
                }
                return fail("partial-index/predicate-unusable", format!("after {after}: the stored predicate of a partial index cannot be evaluated: {} ({partial:?})", e.msg));
            }
        };
        let Some(v) = verdicts.get(0) else { return undecided("probe-read/check") };
        for (k, (name, stored, reference)) in partial.iter().enumerate() {
            if int(&v[checks.len() + k]) != 1 {
                return fail("partial-index/predicate-differs", format!("after {after}: index {name:?} is stored with predicate {stored:?}; on row {vals:?} it differs from the declared {reference}"));
            }
        }
        let violated: Vec<usize> = (0..checks.len()).filter(|k| int(&v[*k]) == 1).collect();
        if !checks.is_empty() {
            let outcome = savepoint(db, || {
                ignore_checks(db, false)?;
                Ok(t.insert_full(db, &vals))
            })?;
            ignore_checks(db, true)?;
            match (&outcome, violated.is_empty()) {
                (Ok(()), true) => passed += 1,
                (Err(e), false) if e.msg.contains("CHECK constraint failed") => falsified += 1,
                (Ok(()), false) => {
                    return fail("check/not-enforced", format!("after {after}: row {vals:?} violates declared CHECK(s) {:?} but was accepted", violated.iter().map(|k| &checks[*k]).collect::<Vec<_>>()))
                }
                (Err(e), true) if e.msg.contains("CHECK constraint failed") => {
                    return fail("check/spurious", format!("after {after}: row {vals:?} satisfies every declared CHECK {checks:?} but was rejected: {}", e.msg))
                }
                (Err(e), _) => return undecided(format!("probe-insert/check2/{}", short(&e.msg))),
            }
        }
    }
    if !checks.is_empty() {
        obs.label("probe/check");
        if falsified > 0 {
            obs.label("probe/check/some-row-rejected");
        }
        if passed > 0 {
            obs.label("probe/check/some-row-accepted");
        }
    }
    if !partial.is_empty() {
        obs.label("probe/partial-predicate");
    }
    Ok(())
}

fn pk_has(m: &Model, uid: Uid) -> bool {
    m.pk_cols().contains(&uid)
}
