//! C13 specs: what the user asks the schema builders for (serialisable, shrinkable), plus the
//! generators. A spec never contains sea-query objects; `resolve.rs` turns it into a concrete,
//! valid request (names made unique, engine restrictions applied) and `build.rs` performs the
//! public-API calls.

use proptest::prelude::*;
use serde::{Deserialize, Serialize};

// ---------------------------------------------------------------------------------------- types

#[derive(Serialize, Deserialize, Clone, Debug, PartialEq, Eq, Hash)]
pub enum SLen {
    N(u32),
    Max,
    None,
}

/// Every `ColumnType` the SQLite backend renders (the `unimplemented!` arms are outside the domain).
#[derive(Serialize, Deserialize, Clone, Debug, PartialEq, Eq, Hash)]
pub enum Ty {
    Char(Option<u32>),
    String(SLen),
    Text,
    TinyInteger,
    SmallInteger,
    Integer,
    BigInteger,
    TinyUnsigned,
    SmallUnsigned,
    Unsigned,
    BigUnsigned,
    Float,
    Double,
    /// precision <= 16 (documented panic above)
    Decimal(Option<(u32, u32)>),
    DateTime,
    Timestamp,
    TimestampWithTimeZone,
    Time,
    Date,
    Binary(u32),
    VarBinary(SLen),
    Blob,
    Boolean,
    Money(Option<(u32, u32)>),
    Json,
    JsonBinary,
    Uuid,
    Enum { name: String, variants: Vec<String> },
    /// index into `CUSTOM_TYPES`
    Custom(u8),
}

#[derive(Serialize, Deserialize, Clone, Copy, Debug, PartialEq, Eq, Hash, PartialOrd, Ord)]
pub enum Aff {
    Integer,
    Real,
    Text,
    Blob,
    Numeric,
}

impl Aff {
    pub fn name(self) -> &'static str {
        match self {
            Aff::Integer => "INTEGER",
            Aff::Real => "REAL",
            Aff::Text => "TEXT",
            Aff::Blob => "BLOB",
            Aff::Numeric => "NUMERIC",
        }
    }
}

/// Custom type names with the affinity the SQLite manual's example table (datatype3.html 3.1.1)
/// assigns to exactly these names.
pub const CUSTOM_TYPES: [(&str, Aff); 10] = [
    ("TEXT", Aff::Text),
    ("CLOB", Aff::Text),
    ("NVARCHAR(100)", Aff::Text),
    ("VARYING CHARACTER(255)", Aff::Text),
    ("NUMERIC", Aff::Numeric),
    ("DATETIME", Aff::Numeric),
    ("INT8", Aff::Integer),
    ("DOUBLE PRECISION", Aff::Real),
    ("BLOB", Aff::Blob),
    ("DECIMAL(10,5)", Aff::Numeric),
];

impl Ty {
    /// The storage affinity intended for the abstract type (property statement / DESIGN C13).
    pub fn intended(&self) -> Aff {
        match self {
            Ty::TinyInteger | Ty::SmallInteger | Ty::Integer | Ty::BigInteger | Ty::TinyUnsigned | Ty::SmallUnsigned | Ty::Unsigned | Ty::BigUnsigned => Aff::Integer,
            Ty::Float | Ty::Double | Ty::Decimal(_) | Ty::Money(_) => Aff::Real,
            Ty::Char(_)
            | Ty::String(_)
            | Ty::Text
            | Ty::DateTime
            | Ty::Timestamp
            | Ty::TimestampWithTimeZone
            | Ty::Time
            | Ty::Date
            | Ty::Json
            | Ty::JsonBinary
            | Ty::Uuid
            | Ty::Enum { .. } => Aff::Text,
            Ty::Binary(_) | Ty::VarBinary(_) | Ty::Blob => Aff::Blob,
            Ty::Boolean => Aff::Numeric,
            Ty::Custom(i) => CUSTOM_TYPES[*i as usize % CUSTOM_TYPES.len()].1,
        }
    }
    pub fn is_integer_family(&self) -> bool {
        matches!(
            self,
            Ty::TinyInteger | Ty::SmallInteger | Ty::Integer | Ty::BigInteger | Ty::TinyUnsigned | Ty::SmallUnsigned | Ty::Unsigned | Ty::BigUnsigned
        )
    }
    /// short class name for labels and signatures
    pub fn kind(&self) -> &'static str {
        match self {
            Ty::Char(_) => "Char",
            Ty::String(_) => "String",
            Ty::Text => "Text",
            Ty::TinyInteger => "TinyInteger",
            Ty::SmallInteger => "SmallInteger",
            Ty::Integer => "Integer",
            Ty::BigInteger => "BigInteger",
            Ty::TinyUnsigned => "TinyUnsigned",
            Ty::SmallUnsigned => "SmallUnsigned",
            Ty::Unsigned => "Unsigned",
            Ty::BigUnsigned => "BigUnsigned",
            Ty::Float => "Float",
            Ty::Double => "Double",
            Ty::Decimal(_) => "Decimal",
            Ty::DateTime => "DateTime",
            Ty::Timestamp => "Timestamp",
            Ty::TimestampWithTimeZone => "TimestampWithTimeZone",
            Ty::Time => "Time",
            Ty::Date => "Date",
            Ty::Binary(_) => "Binary",
            Ty::VarBinary(_) => "VarBinary",
            Ty::Blob => "Blob",
            Ty::Boolean => "Boolean",
            Ty::Money(_) => "Money",
            Ty::Json => "Json",
            Ty::JsonBinary => "JsonBinary",
            Ty::Uuid => "Uuid",
            Ty::Enum { .. } => "Enum",
            Ty::Custom(_) => "Custom",
        }
    }
}

/// One representative of every supported `ColumnType` variant and parameter shape (the sweep).
pub fn all_types() -> Vec<Ty> {
    let mut v = vec![
        Ty::Char(None),
        Ty::Char(Some(5)),
        Ty::String(SLen::None),
        Ty::String(SLen::N(255)),
        Ty::String(SLen::Max),
        Ty::Text,
        Ty::TinyInteger,
        Ty::SmallInteger,
        Ty::Integer,
        Ty::BigInteger,
        Ty::TinyUnsigned,
        Ty::SmallUnsigned,
        Ty::Unsigned,
        Ty::BigUnsigned,
        Ty::Float,
        Ty::Double,
        Ty::Decimal(None),
        Ty::Decimal(Some((16, 4))),
        Ty::DateTime,
        Ty::Timestamp,
        Ty::TimestampWithTimeZone,
        Ty::Time,
        Ty::Date,
        Ty::Binary(16),
        Ty::VarBinary(SLen::N(32)),
        Ty::VarBinary(SLen::Max),
        Ty::VarBinary(SLen::None),
        Ty::Blob,
        Ty::Boolean,
        Ty::Money(None),
        Ty::Money(Some((19, 4))),
        Ty::Json,
        Ty::JsonBinary,
        Ty::Uuid,
        Ty::Enum { name: "mood".into(), variants: vec!["sad".into(), "it's".into()] },
    ];
    for i in 0..CUSTOM_TYPES.len() {
        v.push(Ty::Custom(i as u8));
    }
    v
}

// -------------------------------------------------------------------------------- column specifications

pub const FLOATS: [f64; 5] = [1.5, -0.25, 3.25, 0.001, 1234.5];
/// the text SQLite stores when the float is converted by TEXT affinity
pub const FLOATS_TEXT: [&str; 5] = ["1.5", "-0.25", "3.25", "0.001", "1234.5"];

#[derive(Serialize, Deserialize, Clone, Debug, PartialEq, Eq, Hash)]
pub enum Lit {
    Int(i64),
    /// index into `FLOATS` (non-integral: an integral f64 is inlined as an integer literal, DESIGN F13)
    Float(u8),
    Text(String),
    Bool(bool),
    /// `Keyword::Null`
    Null,
    /// a typed NULL value (`Value::Int(None)`)
    NullValue,
    CurrentTimestamp,
}

impl Lit {
    pub fn kind(&self) -> &'static str {
        match self {
            Lit::Int(n) if *n < 0 => "neg-int",
            Lit::Int(_) => "int",
            Lit::Float(_) => "float",
            Lit::Text(_) => "text",
            Lit::Bool(_) => "bool",
            Lit::Null | Lit::NullValue => "null",
            Lit::CurrentTimestamp => "current-timestamp",
        }
    }
    pub fn is_null(&self) -> bool {
        matches!(self, Lit::Null | Lit::NullValue)
    }
}

#[derive(Serialize, Deserialize, Clone, Copy, Debug, PartialEq, Eq, Hash)]
pub enum CmpOp {
    Eq,
    Ne,
    Lt,
    Le,
    Gt,
    Ge,
}

/// Predicates for CHECK constraints and partial indexes. `c` selects a column (resolved modulo
/// the number of columns; ignored inside a column-level CHECK, which speaks about its own
/// column). A comparison carries both an integer and a text literal; the one matching the
/// column's class is used (blob-class columns degrade to IS NOT NULL).
#[derive(Serialize, Deserialize, Clone, Debug, PartialEq, Eq, Hash)]
pub enum Pred {
    Cmp { c: u8, op: CmpOp, int: i64, text: String },
    IsNull(u8),
    NotNull(u8),
    And(Box<Pred>, Box<Pred>),
    Or(Box<Pred>, Box<Pred>),
    Not(Box<Pred>),
}

#[derive(Serialize, Deserialize, Clone, Copy, Debug, PartialEq, Eq, Hash)]
pub enum ExtraKind {
    CollateNocase,
    CollateBinary,
}

#[derive(Serialize, Deserialize, Clone, Debug, PartialEq, Eq, Hash)]
pub enum CSpec {
    Null,
    NotNull,
    Default(Lit),
    Unique,
    PrimaryKey,
    AutoIncrement,
    Check(Pred),
    Comment(String),
    Extra(ExtraKind),
}

impl CSpec {
    pub fn kind(&self) -> &'static str {
        match self {
            CSpec::Null => "null",
            CSpec::NotNull => "not-null",
            CSpec::Default(_) => "default",
            CSpec::Unique => "unique",
            CSpec::PrimaryKey => "primary-key",
            CSpec::AutoIncrement => "autoincrement",
            CSpec::Check(_) => "check",
            CSpec::Comment(_) => "comment",
            CSpec::Extra(_) => "extra",
        }
    }
}

#[derive(Serialize, Deserialize, Clone, Debug, PartialEq, Eq, Hash)]
pub struct ColSpec {
    pub name: String,
    pub ty: Ty,
    /// build with `ColumnDef::new_with_type` instead of the per-type builder method
    pub via_type: bool,
    pub specs: Vec<CSpec>,
}

#[derive(Serialize, Deserialize, Clone, Copy, Debug, PartialEq, Eq, Hash)]
pub enum Ord3 {
    None,
    Asc,
    Desc,
}

#[derive(Serialize, Deserialize, Clone, Debug, PartialEq, Eq, Hash)]
pub struct KeySpec {
    pub name: Option<String>,
    /// column selectors (modulo the column count; duplicates removed)
    pub cols: Vec<(u8, Ord3)>,
}

#[derive(Serialize, Deserialize, Clone, Copy, Debug, PartialEq, Eq, Hash)]
pub enum Act {
    Restrict,
    Cascade,
    SetNull,
    NoAction,
    SetDefault,
}

pub const ACTS: [Act; 5] = [Act::Restrict, Act::Cascade, Act::SetNull, Act::NoAction, Act::SetDefault];

impl Act {
    pub fn sql(self) -> &'static str {
        match self {
            Act::Restrict => "RESTRICT",
            Act::Cascade => "CASCADE",
            Act::SetNull => "SET NULL",
            Act::NoAction => "NO ACTION",
            Act::SetDefault => "SET DEFAULT",
        }
    }
}

#[derive(Serialize, Deserialize, Clone, Debug, PartialEq, Eq, Hash)]
pub struct FkSpec {
    pub name: Option<String>,
    /// 0, 1 = the pre-created parents; 2 = the table itself
    pub parent: u8,
    /// child column selectors (1..=2 after resolution)
    pub cols: Vec<u8>,
    /// selector of the first referenced parent column
    pub to: u8,
    pub on_delete: Option<Act>,
    pub on_update: Option<Act>,
    /// build with from()/to() (true) or from_tbl/from_col/to_tbl/to_col (false)
    pub tuple_api: bool,
}

#[derive(Serialize, Deserialize, Clone, Debug, PartialEq, Eq, Hash)]
pub struct TableSpec {
    pub name: String,
    pub temporary: bool,
    pub if_not_exists: bool,
    pub comment: Option<String>,
    pub cols: Vec<ColSpec>,
    pub pk: Option<KeySpec>,
    /// add the table-level primary key before the unique keys (else after)
    pub pk_first: bool,
    /// `primary_key(&mut idx)` (true) or `index(idx.primary())`
    pub pk_api: bool,
    pub uniques: Vec<KeySpec>,
    pub fks: Vec<FkSpec>,
    pub checks: Vec<Pred>,
    /// render with `build` instead of `to_string`
    pub via_build: bool,
}

#[derive(Serialize, Deserialize, Clone, Debug, PartialEq, Eq, Hash)]
pub enum Step {
    AddColumn { col: ColSpec, api_if_not_exists: bool },
    RenameColumn { col: u8, to: String },
    DropColumn { col: u8 },
    RenameTable { to: String },
    CreateIndex { name: String, unique: bool, cols: Vec<(u8, Ord3)>, pred: Option<Pred>, if_not_exists: bool, reuse_name: bool },
    DropIndex { idx: u8, if_exists: bool, missing: bool },
    DropTable { if_exists: bool, missing: bool, opt: u8 },
}

impl Step {
    pub fn kind(&self) -> &'static str {
        match self {
            Step::AddColumn { .. } => "add-column",
            Step::RenameColumn { .. } => "rename-column",
            Step::DropColumn { .. } => "drop-column",
            Step::RenameTable { .. } => "rename-table",
            Step::CreateIndex { .. } => "create-index",
            Step::DropIndex { .. } => "drop-index",
            Step::DropTable { .. } => "drop-table",
        }
    }
}

#[derive(Serialize, Deserialize, Clone, Debug, PartialEq, Eq, Hash)]
pub struct Case {
    pub table: TableSpec,
    pub steps: Vec<Step>,
}

// ------------------------------------------------------------------------------------ name pools

pub const COL_NAMES: [&str; 30] = [
    "a", "b", "c", "d", "e", "f", "id", "Id2", "na me", "q\"t", "\"", "s'q", "ünï", "B`t", "br[k]", "x.y", "semi;", "dash-1", "select", "order", "check", "日本",
    "tab\tx", "nl\nx", "--c", "/*c*/", "%p", "$1", "?", "a\\b",
];
pub const TABLE_NAMES: [&str; 12] = ["t", "T b", "q\"t", "it's", "tünï", "tbl;x", "order", "x.y", "t-1", "[b]", "`k`", "table"];
pub const RENAME_NAMES: [&str; 8] = ["r", "R n", "r\"q", "r's", "ré", "group", "r.s", "\"r\""];
pub const INDEX_NAMES: [&str; 12] = ["ix", "i x", "i\"q", "i'q", "ïx", "index", "i.x", "i-1", "[i]", "i`b", "\"\"", "idx-glyph-id"];
pub const TEXTS: [&str; 10] = ["it's", "a\"b", "", "x y", "é", "12", "-3", "m", "Z z", "back\\slash"];

fn name(pool: &'static [&'static str]) -> impl Strategy<Value = String> {
    prop_oneof![
        4 => proptest::sample::select(pool).prop_map(|s| s.to_string()),
        1 => crate::util::nasty_string(5).prop_map(|s| if s.is_empty() { "e".to_string() } else { s }),
    ]
}

// ------------------------------------------------------------------------------------ strategies

fn slen() -> impl Strategy<Value = SLen> {
    prop_oneof![2 => (1u32..=1000).prop_map(SLen::N), 1 => any::<u32>().prop_map(SLen::N), 1 => Just(SLen::Max), 1 => Just(SLen::None)]
}

pub fn ty() -> impl Strategy<Value = Ty> {
    let prec = prop_oneof![Just(None), (0u32..=16, 0u32..=16).prop_map(Some), (0u32..=16, any::<u32>()).prop_map(Some)];
    let mprec = prop_oneof![Just(None), (0u32..=40, 0u32..=16).prop_map(Some), (any::<u32>(), any::<u32>()).prop_map(Some)];
    prop_oneof![
        12 => proptest::sample::select(all_types()),
        1 => proptest::option::of(prop_oneof![1u32..=300, any::<u32>()]).prop_map(Ty::Char),
        1 => slen().prop_map(Ty::String),
        1 => prec.prop_map(Ty::Decimal),
        1 => mprec.prop_map(Ty::Money),
        1 => prop_oneof![1u32..=300, any::<u32>()].prop_map(Ty::Binary),
        1 => slen().prop_map(Ty::VarBinary),
        1 => (name(&TABLE_NAMES), proptest::collection::vec(crate::util::nasty_string(4), 0..3)).prop_map(|(name, variants)| Ty::Enum { name, variants }),
    ]
}

pub fn lit() -> impl Strategy<Value = Lit> {
    prop_oneof![
        3 => proptest::sample::select(vec![0i64, 1, 7, 42, i64::MAX]).prop_map(Lit::Int),
        3 => proptest::sample::select(vec![-1i64, -5, -42, i64::MIN, i64::MIN + 1]).prop_map(Lit::Int),
        1 => any::<i64>().prop_map(Lit::Int),
        2 => (0u8..FLOATS.len() as u8).prop_map(Lit::Float),
        3 => proptest::sample::select(TEXTS.to_vec()).prop_map(|s| Lit::Text(s.to_string())),
        1 => crate::util::nasty_string(6).prop_map(Lit::Text),
        2 => any::<bool>().prop_map(Lit::Bool),
        1 => Just(Lit::Null),
        1 => Just(Lit::NullValue),
        2 => Just(Lit::CurrentTimestamp),
    ]
}

fn cmp_op() -> impl Strategy<Value = CmpOp> {
    proptest::sample::select(vec![CmpOp::Eq, CmpOp::Ne, CmpOp::Lt, CmpOp::Le, CmpOp::Gt, CmpOp::Ge])
}

pub fn pred() -> impl Strategy<Value = Pred> {
    let leaf = prop_oneof![
        4 => (any::<u8>(), cmp_op(), -3i64..=9, proptest::sample::select(vec!["m", "it's", "", "Z z", "a\"b"])).prop_map(|(c, op, int, text)| Pred::Cmp { c, op, int, text: text.to_string() }),
        1 => any::<u8>().prop_map(Pred::IsNull),
        2 => any::<u8>().prop_map(Pred::NotNull),
    ];
    leaf.prop_recursive(2, 6, 2, |inner| {
        prop_oneof![
            2 => (inner.clone(), inner.clone()).prop_map(|(a, b)| Pred::And(Box::new(a), Box::new(b))),
            2 => (inner.clone(), inner.clone()).prop_map(|(a, b)| Pred::Or(Box::new(a), Box::new(b))),
            1 => inner.prop_map(|a| Pred::Not(Box::new(a))),
        ]
    })
}

fn extra() -> impl Strategy<Value = ExtraKind> {
    prop_oneof![3 => Just(ExtraKind::CollateNocase), 1 => Just(ExtraKind::CollateBinary)]
}

pub fn cspec() -> impl Strategy<Value = CSpec> {
    prop_oneof![
        2 => Just(CSpec::Null),
        4 => Just(CSpec::NotNull),
        6 => lit().prop_map(CSpec::Default),
        3 => Just(CSpec::Unique),
        3 => Just(CSpec::PrimaryKey),
        3 => Just(CSpec::AutoIncrement),
        4 => pred().prop_map(CSpec::Check),
        1 => crate::util::nasty_string(6).prop_map(CSpec::Comment),
        2 => extra().prop_map(CSpec::Extra),
    ]
}

pub fn col_spec() -> impl Strategy<Value = ColSpec> {
    (name(&COL_NAMES), ty(), any::<bool>(), proptest::collection::vec(cspec(), 0..=4)).prop_map(|(name, ty, via_type, specs)| ColSpec { name, ty, via_type, specs })
}

/// a column that is likely to become an auto-increment key (keeps that corner populated)
fn autoinc_col() -> impl Strategy<Value = ColSpec> {
    (
        name(&COL_NAMES),
        proptest::sample::select(vec![
            Ty::Integer,
            Ty::Integer,
            Ty::Unsigned,
            Ty::BigInteger,
            Ty::BigUnsigned,
            Ty::Integer,
            Ty::BigInteger,
            Ty::Unsigned,
            Ty::BigUnsigned,
            Ty::Integer,
            Ty::Integer,
            Ty::SmallInteger,
        ]),
        any::<bool>(),
        proptest::collection::vec(prop_oneof![2 => Just(CSpec::NotNull), 1 => Just(CSpec::Unique), 1 => Just(CSpec::Comment("c".into()))], 0..=1),
        any::<bool>(),
        any::<bool>(),
    )
        .prop_map(|(name, ty, via_type, mut specs, ai_first, with_ai)| {
            if ai_first {
                if with_ai {
                    specs.push(CSpec::AutoIncrement);
                }
                specs.push(CSpec::PrimaryKey);
            } else {
                specs.insert(0, CSpec::PrimaryKey);
                if with_ai {
                    specs.push(CSpec::AutoIncrement);
                }
            }
            ColSpec { name, ty, via_type, specs }
        })
}

fn ord3() -> impl Strategy<Value = Ord3> {
    prop_oneof![2 => Just(Ord3::None), 1 => Just(Ord3::Asc), 2 => Just(Ord3::Desc)]
}

fn key_spec() -> impl Strategy<Value = KeySpec> {
    (proptest::option::weighted(0.5, name(&INDEX_NAMES)), proptest::collection::vec((any::<u8>(), ord3()), 1..=3)).prop_map(|(name, cols)| KeySpec { name, cols })
}

fn act() -> impl Strategy<Value = Option<Act>> {
    proptest::option::weighted(0.75, proptest::sample::select(ACTS.to_vec()))
}

fn fk_spec() -> impl Strategy<Value = FkSpec> {
    (proptest::option::weighted(0.4, name(&INDEX_NAMES)), 0u8..3, proptest::collection::vec(any::<u8>(), 1..=2), any::<u8>(), act(), act(), any::<bool>())
        .prop_map(|(name, parent, cols, to, on_delete, on_update, tuple_api)| FkSpec { name, parent, cols, to, on_delete, on_update, tuple_api })
}

pub fn table_spec() -> impl Strategy<Value = TableSpec> {
    let cols = (proptest::option::weighted(0.3, autoinc_col()), proptest::collection::vec(col_spec(), 1..=5)).prop_map(|(ai, mut v)| {
        if let Some(a) = ai {
            let at = (a.name.len() + v.len()) % (v.len() + 1);
            v.insert(at, a);
        }
        v
    });
    (
        (name(&TABLE_NAMES), prop_oneof![3 => Just(false), 1 => Just(true)], prop_oneof![2 => Just(false), 1 => Just(true)], proptest::option::weighted(0.2, crate::util::nasty_string(5))),
        cols,
        (proptest::option::weighted(0.4, key_spec()), any::<bool>(), any::<bool>(), proptest::collection::vec(key_spec(), 0..=2)),
        proptest::collection::vec(fk_spec(), 0..=2),
        proptest::collection::vec(pred(), 0..=2),
        any::<bool>(),
    )
        .prop_map(|((name, temporary, if_not_exists, comment), cols, (pk, pk_first, pk_api, uniques), fks, checks, via_build)| TableSpec {
            name,
            temporary,
            if_not_exists,
            comment,
            cols,
            pk,
            pk_first,
            pk_api,
            uniques,
            fks,
            checks,
            via_build,
        })
}

pub fn step() -> impl Strategy<Value = Step> {
    prop_oneof![
        4 => (col_spec(), any::<bool>()).prop_map(|(col, api_if_not_exists)| Step::AddColumn { col, api_if_not_exists }),
        3 => (any::<u8>(), name(&COL_NAMES)).prop_map(|(col, to)| Step::RenameColumn { col, to }),
        3 => any::<u8>().prop_map(|col| Step::DropColumn { col }),
        2 => name(&RENAME_NAMES).prop_map(|to| Step::RenameTable { to }),
        7 => (name(&INDEX_NAMES), any::<bool>(), proptest::collection::vec((any::<u8>(), ord3()), 1..=3), proptest::option::weighted(0.45, pred()), prop_oneof![2 => Just(false), 1 => Just(true)], prop_oneof![4 => Just(false), 1 => Just(true)])
            .prop_map(|(name, unique, cols, pred, if_not_exists, reuse_name)| Step::CreateIndex { name, unique, cols, pred, if_not_exists, reuse_name }),
        2 => (any::<u8>(), any::<bool>(), prop_oneof![5 => Just(false), 1 => Just(true)]).prop_map(|(idx, if_exists, missing)| Step::DropIndex { idx, if_exists, missing }),
        1 => (any::<bool>(), prop_oneof![3 => Just(false), 1 => Just(true)], 0u8..3).prop_map(|(if_exists, missing, opt)| Step::DropTable { if_exists, missing, opt }),
    ]
}

pub fn case_strategy(max_steps: usize) -> impl Strategy<Value = Case> {
    (table_spec(), proptest::collection::vec(step(), 1..=max_steps)).prop_map(|(table, steps)| Case { table, steps })
}

// --------------------------------------------------------------------------------- the exhaustive sweep

/// The specification alphabet of the sweep (one representative per kind / literal kind).
pub fn sweep_specs() -> Vec<CSpec> {
    vec![
        CSpec::Null,
        CSpec::NotNull,
        CSpec::Default(Lit::Int(7)),
        CSpec::Default(Lit::Int(-5)),
        CSpec::Default(Lit::Float(0)),
        CSpec::Default(Lit::Text("it's \"q\"".into())),
        CSpec::Default(Lit::Bool(true)),
        CSpec::Default(Lit::Null),
        CSpec::Default(Lit::CurrentTimestamp),
        CSpec::Unique,
        CSpec::PrimaryKey,
        CSpec::AutoIncrement,
        CSpec::Check(Pred::Or(Box::new(Pred::Cmp { c: 0, op: CmpOp::Ne, int: 3, text: "m".into() }), Box::new(Pred::IsNull(0)))),
        CSpec::Comment("it's a comment".into()),
        CSpec::Extra(ExtraKind::CollateNocase),
    ]
}

fn sweep_ok(ty: &Ty, seq: &[CSpec]) -> bool {
    let has = |k: &str| seq.iter().any(|s| s.kind() == k);
    // two specifications of the same kind say contradictory things (two defaults)
    if seq.len() == 2 && seq[0].kind() == seq[1].kind() {
        return false;
    }
    // AUTOINCREMENT: only together with PRIMARY KEY on an integer-family column (engine restriction)
    if has("autoincrement") && !(has("primary-key") && ty.is_integer_family()) {
        return false;
    }
    true
}

/// all (type, specification sequence) combinations of the sweep, smallest first
pub fn sweep_cases() -> Vec<Case> {
    let types = all_types();
    let specs = sweep_specs();
    let mut seqs: Vec<Vec<CSpec>> = vec![vec![]];
    for s in &specs {
        seqs.push(vec![s.clone()]);
    }
    for a in &specs {
        for b in &specs {
            seqs.push(vec![a.clone(), b.clone()]);
        }
    }
    // the one valid triple shape that matters for ordering: PRIMARY KEY + AUTOINCREMENT + one more, all orders
    for third in [CSpec::NotNull, CSpec::Unique, CSpec::Default(Lit::Int(-5))] {
        let items = [CSpec::PrimaryKey, CSpec::AutoIncrement, third];
        for p in [[0, 1, 2], [0, 2, 1], [1, 0, 2], [1, 2, 0], [2, 0, 1], [2, 1, 0]] {
            seqs.push(p.iter().map(|i| items[*i].clone()).collect());
        }
    }
    let mut out = vec![];
    for seq in &seqs {
        for (k, ty) in types.iter().enumerate() {
            if !sweep_ok(ty, seq) {
                continue;
            }
            let first = k % 2 == 0;
            let x = ColSpec { name: "x".into(), ty: ty.clone(), via_type: k % 3 == 0, specs: seq.clone() };
            let z = ColSpec { name: "z".into(), ty: Ty::Integer, via_type: false, specs: vec![] };
            out.push(Case {
                table: TableSpec {
                    name: "t".into(),
                    temporary: false,
                    if_not_exists: false,
                    comment: None,
                    cols: if first { vec![x, z] } else { vec![z, x] },
                    pk: None,
                    pk_first: false,
                    pk_api: false,
                    uniques: vec![],
                    fks: vec![],
                    checks: vec![],
                    via_build: k % 2 == 1,
                },
                steps: vec![],
            });
        }
    }
    out
}
