//! The interpreter: resolved requests -> sea-query PUBLIC API calls -> SQLite rendering.

use super::model::*;
use super::spec::*;
use sea_query::*;

fn a(s: &str) -> Alias {
    Alias::new(s)
}

fn slen(l: &SLen) -> StringLen {
    match l {
        SLen::N(n) => StringLen::N(*n),
        SLen::Max => StringLen::Max,
        SLen::None => StringLen::None,
    }
}

pub fn column_type(ty: &Ty) -> ColumnType {
    match ty {
        Ty::Char(l) => ColumnType::Char(*l),
        Ty::String(l) => ColumnType::String(slen(l)),
        Ty::Text => ColumnType::Text,
        Ty::TinyInteger => ColumnType::TinyInteger,
        Ty::SmallInteger => ColumnType::SmallInteger,
        Ty::Integer => ColumnType::Integer,
        Ty::BigInteger => ColumnType::BigInteger,
        Ty::TinyUnsigned => ColumnType::TinyUnsigned,
        Ty::SmallUnsigned => ColumnType::SmallUnsigned,
        Ty::Unsigned => ColumnType::Unsigned,
        Ty::BigUnsigned => ColumnType::BigUnsigned,
        Ty::Float => ColumnType::Float,
        Ty::Double => ColumnType::Double,
        Ty::Decimal(p) => ColumnType::Decimal(*p),
        Ty::DateTime => ColumnType::DateTime,
        Ty::Timestamp => ColumnType::Timestamp,
        Ty::TimestampWithTimeZone => ColumnType::TimestampWithTimeZone,
        Ty::Time => ColumnType::Time,
        Ty::Date => ColumnType::Date,
        Ty::Binary(n) => ColumnType::Binary(*n),
        Ty::VarBinary(l) => ColumnType::VarBinary(slen(l)),
        Ty::Blob => ColumnType::Blob,
        Ty::Boolean => ColumnType::Boolean,
        Ty::Money(p) => ColumnType::Money(*p),
        Ty::Json => ColumnType::Json,
        Ty::JsonBinary => ColumnType::JsonBinary,
        Ty::Uuid => ColumnType::Uuid,
        Ty::Enum { name, variants } => ColumnType::Enum { name: a(name).into_iden(), variants: variants.iter().map(|v| a(v).into_iden()).collect() },
        Ty::Custom(i) => ColumnType::Custom(a(CUSTOM_TYPES[*i as usize % CUSTOM_TYPES.len()].0).into_iden()),
    }
}

/// set the type through the per-type builder method where one exists for exactly this shape
fn typed(def: &mut ColumnDef, ty: &Ty) -> bool {
    match ty {
        Ty::Char(None) => def.char(),
        Ty::Char(Some(n)) => def.char_len(*n),
        Ty::String(SLen::None) => def.string(),
        Ty::String(SLen::N(n)) => def.string_len(*n),
        Ty::Text => def.text(),
        Ty::TinyInteger => def.tiny_integer(),
        Ty::SmallInteger => def.small_integer(),
        Ty::Integer => def.integer(),
        Ty::BigInteger => def.big_integer(),
        Ty::TinyUnsigned => def.tiny_unsigned(),
        Ty::SmallUnsigned => def.small_unsigned(),
        Ty::Unsigned => def.unsigned(),
        Ty::BigUnsigned => def.big_unsigned(),
        Ty::Float => def.float(),
        Ty::Double => def.double(),
        Ty::Decimal(None) => def.decimal(),
        Ty::Decimal(Some((p, s))) => def.decimal_len(*p, *s),
        Ty::DateTime => def.date_time(),
        Ty::Timestamp => def.timestamp(),
        Ty::TimestampWithTimeZone => def.timestamp_with_time_zone(),
        Ty::Time => def.time(),
        Ty::Date => def.date(),
        Ty::Binary(n) => def.binary_len(*n),
        Ty::VarBinary(SLen::N(n)) => def.var_binary(*n),
        Ty::Blob => def.blob(),
        Ty::Boolean => def.boolean(),
        Ty::Money(None) => def.money(),
        Ty::Money(Some((p, s))) => def.money_len(*p, *s),
        Ty::Json => def.json(),
        Ty::JsonBinary => def.json_binary(),
        Ty::Uuid => def.uuid(),
        Ty::Enum { name, variants } => def.enumeration(a(name), variants.iter().map(|v| a(v))),
        Ty::Custom(i) => def.custom(a(CUSTOM_TYPES[*i as usize % CUSTOM_TYPES.len()].0)),
        Ty::String(SLen::Max) | Ty::VarBinary(SLen::Max) | Ty::VarBinary(SLen::None) => return false,
    };
    true
}

pub fn lit_expr(l: &Lit) -> SimpleExpr {
    match l {
        Lit::Int(n) => {
            if let Ok(small) = <i32 as std::convert::TryFrom<i64>>::try_from(*n) {
                if small % 2 == 0 {
                    return SimpleExpr::from(small);
                }
            }
            SimpleExpr::from(*n)
        }
        Lit::Float(i) => SimpleExpr::from(FLOATS[*i as usize % FLOATS.len()]),
        Lit::Text(s) => SimpleExpr::from(s.as_str()),
        Lit::Bool(b) => SimpleExpr::from(*b),
        Lit::Null => SimpleExpr::Keyword(Keyword::Null),
        Lit::NullValue => SimpleExpr::Value(Value::Int(None)),
        Lit::CurrentTimestamp => Expr::current_timestamp().into(),
    }
}

/// predicate through the expression API; `name(uid)` = the column's current name
pub fn pred_expr(p: &RPred, name: &dyn Fn(Uid) -> String) -> SimpleExpr {
    match p {
        RPred::Cmp { col, op, lit } => {
            let c = Expr::col(a(&name(*col)));
            let v: SimpleExpr = match lit {
                PLit::Int(n) => SimpleExpr::from(*n),
                PLit::Text(s) => SimpleExpr::from(s.as_str()),
            };
            match op {
                CmpOp::Eq => c.eq(v),
                CmpOp::Ne => c.ne(v),
                CmpOp::Lt => c.lt(v),
                CmpOp::Le => c.lte(v),
                CmpOp::Gt => c.gt(v),
                CmpOp::Ge => c.gte(v),
            }
        }
        RPred::IsNull(c) => Expr::col(a(&name(*c))).is_null(),
        RPred::NotNull(c) => Expr::col(a(&name(*c))).is_not_null(),
        RPred::And(x, y) => pred_expr(x, name).and(pred_expr(y, name)),
        RPred::Or(x, y) => pred_expr(x, name).or(pred_expr(y, name)),
        RPred::Not(x) => pred_expr(x, name).not(),
    }
}

pub fn column_def(c: &RCol) -> ColumnDef {
    let mut def = if c.via_type {
        ColumnDef::new_with_type(a(&c.name), column_type(&c.ty))
    } else {
        let mut d = ColumnDef::new(a(&c.name));
        if !typed(&mut d, &c.ty) {
            d = ColumnDef::new_with_type(a(&c.name), column_type(&c.ty));
        }
        d
    };
    let own = c.name.clone();
    for s in &c.specs {
        match s {
            RSpec::Null => def.null(),
            RSpec::NotNull => def.not_null(),
            RSpec::Default(l) => def.default(lit_expr(l)),
            RSpec::Unique => def.unique_key(),
            RSpec::PrimaryKey => def.primary_key(),
            RSpec::AutoIncrement => def.auto_increment(),
            RSpec::Check(p) => def.check(pred_expr(p, &|_| own.clone())),
            RSpec::Comment(t) => def.comment(t.as_str()),
            RSpec::Extra(ExtraKind::CollateNocase) => def.extra("COLLATE NOCASE"),
            RSpec::Extra(ExtraKind::CollateBinary) => def.extra("COLLATE BINARY"),
        };
    }
    def
}

fn index_cols(ix: &mut IndexCreateStatement, cols: &[(Uid, Ord3)], name: &dyn Fn(Uid) -> String) {
    for (u, o) in cols {
        // every third column goes through the forms with a prefix length, which SQLite documents as ignored
        let with_prefix = (*u as u64 + cols.len() as u64) % 3 == 0;
        match (o, with_prefix) {
            (Ord3::None, false) => ix.col(a(&name(*u))),
            (Ord3::None, true) => ix.col((a(&name(*u)), 8u32)),
            (Ord3::Asc, false) => ix.col((a(&name(*u)), IndexOrder::Asc)),
            (Ord3::Desc, false) => ix.col((a(&name(*u)), IndexOrder::Desc)),
            (Ord3::Asc, true) => ix.col((a(&name(*u)), 8u32, IndexOrder::Asc)),
            (Ord3::Desc, true) => ix.col((a(&name(*u)), 8u32, IndexOrder::Desc)),
        };
    }
}

fn action(x: Act) -> ForeignKeyAction {
    match x {
        Act::Restrict => ForeignKeyAction::Restrict,
        Act::Cascade => ForeignKeyAction::Cascade,
        Act::SetNull => ForeignKeyAction::SetNull,
        Act::NoAction => ForeignKeyAction::NoAction,
        Act::SetDefault => ForeignKeyAction::SetDefault,
    }
}

pub fn create_table_sql(t: &RTable) -> String {
    let name_of = |u: Uid| t.cols.iter().find(|c| c.uid == u).map(|c| c.name.clone()).unwrap_or_default();
    let mut st = Table::create();
    st.table(a(&t.name));
    if t.temporary {
        st.temporary();
    }
    if t.if_not_exists {
        st.if_not_exists();
    }
    if let Some(c) = &t.comment {
        st.comment(c.as_str());
    }
    for c in &t.cols {
        st.col(column_def(c));
    }
    let add_pk = |st: &mut TableCreateStatement| {
        if let Some(k) = &t.pk {
            let mut ix = Index::create();
            if let Some(n) = &k.name {
                ix.name(n.as_str());
            }
            index_cols(&mut ix, &k.cols, &name_of);
            if t.pk_api {
                st.primary_key(&mut ix);
            } else {
                st.index(ix.primary());
            }
        }
    };
    if t.pk_first {
        add_pk(&mut st);
    }
    for k in &t.uniques {
        let mut ix = Index::create();
        if let Some(n) = &k.name {
            ix.name(n.as_str());
        }
        ix.unique();
        index_cols(&mut ix, &k.cols, &name_of);
        st.index(&mut ix);
    }
    if !t.pk_first {
        add_pk(&mut st);
    }
    for f in &t.fks {
        let parent_name = match &f.parent {
            ParentRef::Other(i) => PARENTS[*i].0.to_string(),
            ParentRef::SelfTable => t.name.clone(),
        };
        let from: Vec<String> = f.from.iter().map(|u| name_of(*u)).collect();
        let to: Vec<String> = f
            .to
            .iter()
            .map(|c| match c {
                ToCol::Name(n) => n.clone(),
                ToCol::Own(u) => name_of(*u),
            })
            .collect();
        let mut fk = ForeignKey::create();
        if let Some(n) = &f.name {
            fk.name(n.as_str());
        }
        if f.tuple_api && from.len() == 2 {
            fk.from(a(&t.name), (a(&from[0]), a(&from[1])));
            fk.to(a(&parent_name), (a(&to[0]), a(&to[1])));
        } else if f.tuple_api {
            fk.from(a(&t.name), a(&from[0]));
            fk.to(a(&parent_name), a(&to[0]));
        } else {
            fk.from_tbl(a(&t.name));
            for c in &from {
                fk.from_col(a(c));
            }
            fk.to_tbl(a(&parent_name));
            for c in &to {
                fk.to_col(a(c));
            }
        }
        if let Some(x) = f.on_delete {
            fk.on_delete(action(x));
        }
        if let Some(x) = f.on_update {
            fk.on_update(action(x));
        }
        st.foreign_key(&mut fk);
    }
    for p in &t.checks {
        st.check(pred_expr(p, &name_of));
    }
    if t.via_build {
        st.build(SqliteQueryBuilder)
    } else {
        st.to_string(SqliteQueryBuilder)
    }
}

/// `m` is the model BEFORE the step (current names)
pub fn step_sql(m: &Model, s: &RStep) -> String {
    let name_of = |u: Uid| m.col_name(u);
    match s {
        RStep::AddColumn { col, api_if_not_exists } => {
            let mut st = Table::alter();
            st.table(a(&m.name));
            if *api_if_not_exists {
                st.add_column_if_not_exists(column_def(col));
            } else {
                st.add_column(column_def(col));
            }
            st.to_string(SqliteQueryBuilder)
        }
        RStep::RenameColumn { from, to, .. } => Table::alter().table(a(&m.name)).rename_column(a(from), a(to)).to_string(SqliteQueryBuilder),
        RStep::DropColumn { name, .. } => Table::alter().table(a(&m.name)).drop_column(a(name)).build(SqliteQueryBuilder),
        RStep::RenameTable { from, to } => Table::rename().table(a(from), a(to)).to_string(SqliteQueryBuilder),
        RStep::CreateIndex { name, unique, cols, pred, if_not_exists, split_where, .. } => {
            let mut ix = Index::create();
            ix.name(name.as_str()).table(a(&m.name));
            if *unique {
                ix.unique();
            }
            if *if_not_exists {
                ix.if_not_exists();
            }
            index_cols(&mut ix, cols, &name_of);
            match pred {
                Some(RPred::And(x, y)) if *split_where => {
                    // two predicate-adding calls; an OR / NOT on the left goes in as a condition group (any / negated all)
                    match &**x {
                        RPred::Or(p, q) => {
                            ix.cond_where(Cond::any().add(pred_expr(p, &name_of)).add(pred_expr(q, &name_of)));
                        }
                        RPred::Not(p) => {
                            ix.cond_where(Cond::all().add(pred_expr(p, &name_of)).not());
                        }
                        _ => {
                            ix.and_where(pred_expr(x, &name_of));
                        }
                    }
                    ix.and_where(pred_expr(y, &name_of));
                }
                Some(p) => {
                    ix.and_where(pred_expr(p, &name_of));
                }
                None => {}
            }
            ix.to_string(SqliteQueryBuilder)
        }
        RStep::DropIndex { name, if_exists, .. } => {
            let mut st = Index::drop();
            st.name(name.as_str()).table(a(&m.name));
            if *if_exists {
                st.if_exists();
            }
            st.to_string(SqliteQueryBuilder)
        }
        RStep::DropTable { name, if_exists, opt, .. } => {
            let mut st = Table::drop();
            st.table(a(name));
            if *if_exists {
                st.if_exists();
            }
            match opt % 3 {
                1 => {
                    st.restrict();
                }
                2 => {
                    st.cascade();
                }
                _ => {}
            }
            st.to_string(SqliteQueryBuilder)
        }
    }
}
