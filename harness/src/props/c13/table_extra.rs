//! Table-level `extra(..)` text on SQLite: the two table options the engine has (`WITHOUT ROWID`, `STRICT`) must reach the
//! catalogue. Oracle: `pragma_table_list` (`wr`, `strict`) of the real engine against the declared option; column list and
//! primary key as declared (`pragma_table_xinfo`).

use crate::runner::*;
use crate::sqlite;
use proptest::prelude::*;
use sea_query::*;
use serde::{Deserialize, Serialize};

#[derive(Serialize, Deserialize, Clone, Debug, PartialEq, Eq, Hash)]
pub struct ExtraCase {
    /// (type: 0 integer, 1 text, 2 blob; part of the table-level primary key)
    pub cols: Vec<(u8, bool)>,
    /// 0 none, 1 WITHOUT ROWID, 2 STRICT, 3 both
    pub extra: u8,
    pub if_not_exists: bool,
    pub via_build: bool,
    /// the statement is finished with `take()` instead of `to_owned()`
    pub take: bool,
}

const EXTRA_TEXT: [&str; 4] = ["", "WITHOUT ROWID", "STRICT", "STRICT, WITHOUT ROWID"];

pub fn check(c: &ExtraCase, obs: &mut Obs) -> R {
    let mut t = Table::create();
    t.table(Alias::new("t_extra"));
    if c.if_not_exists {
        t.if_not_exists();
    }
    let mut key = Index::create();
    let mut any_key = false;
    for (i, (ty, pk)) in c.cols.iter().enumerate() {
        let mut def = ColumnDef::new(Alias::new(format!("c{i}")));
        match ty % 3 {
            0 => def.integer(),
            1 => def.text(),
            _ => def.blob(),
        };
        t.col(&mut def);
        if *pk {
            key.col(Alias::new(format!("c{i}")));
            any_key = true;
        }
    }
    if any_key {
        t.primary_key(&mut key);
    }
    let extra = c.extra % 4;
    if extra != 0 {
        t.extra(EXTRA_TEXT[extra as usize]);
    }
    let stmt = if c.take { t.take() } else { t.to_owned() };
    let sql = guard("render", || if c.via_build { stmt.build(SqliteQueryBuilder) } else { stmt.to_string(SqliteQueryBuilder) })?;
    obs.note(sql.clone());
    let want_wr = extra == 1 || extra == 3;
    let want_strict = extra == 2 || extra == 3;
    let r: Result<(Vec<sqlite::Row>, Vec<sqlite::Row>), sqlite::SqlError> = sqlite::scratch(|db| {
        db.rolled_back(|db| {
            db.exec(&sql)?;
            let flags = db.rows("SELECT \"wr\", \"strict\" FROM pragma_table_list WHERE \"name\" = 't_extra'")?;
            let cols = db.rows("SELECT \"name\", \"pk\" FROM pragma_table_xinfo('t_extra') ORDER BY \"cid\"")?;
            Ok((flags, cols))
        })
    });
    let (flags, cols) = match r {
        Ok(x) => x,
        Err(e) => return fail(format!("table-extra/engine-rejects/{}", EXTRA_TEXT[extra as usize].replace(' ', "-")), format!("{sql:?}: {}", e.msg)),
    };
    let got = flags.first().map(|r| (r.first() == Some(&sqlite::Cell::Int(1)), r.get(1) == Some(&sqlite::Cell::Int(1))));
    if got != Some((want_wr, want_strict)) {
        return fail(
            format!("table-extra/option-not-in-catalogue/{}", EXTRA_TEXT[extra as usize].replace(' ', "-")),
            format!("declared extra {:?}; {sql:?}; the engine reports (without rowid, strict) = {got:?}, expected ({want_wr}, {want_strict})", EXTRA_TEXT[extra as usize]),
        );
    }
    // columns and key positions as declared
    let mut pos = 0i64;
    let want_cols: Vec<(String, i64)> = c
        .cols
        .iter()
        .enumerate()
        .map(|(i, (_, pk))| {
            (format!("c{i}"), if *pk {
                pos += 1;
                pos
            } else {
                0
            })
        })
        .collect();
    let got_cols: Vec<(String, i64)> = cols
        .iter()
        .map(|r| {
            (
                match r.first() {
                    Some(sqlite::Cell::Text(s)) => s.clone(),
                    _ => String::new(),
                },
                match r.get(1) {
                    Some(sqlite::Cell::Int(i)) => *i,
                    _ => -1,
                },
            )
        })
        .collect();
    if got_cols != want_cols {
        return fail("table-extra/columns", format!("{sql:?}: the engine reports columns (name, pk position) {got_cols:?}, declared {want_cols:?}"));
    }
    obs.label(format!("extra/{}", if extra == 0 { "none" } else { EXTRA_TEXT[extra as usize] }));
    if extra != 0 {
        obs.nontrivial(c);
    }
    Ok(())
}

pub fn strategy() -> impl Strategy<Value = ExtraCase> {
    (proptest::collection::vec((0u8..3, any::<bool>()), 1..5), 0u8..4, any::<bool>(), any::<bool>(), any::<bool>()).prop_map(|(mut cols, extra, if_not_exists, via_build, take)| {
        // WITHOUT ROWID needs a primary key (engine rule)
        if (extra == 1 || extra == 3) && !cols.iter().any(|c| c.1) {
            cols[0].1 = true;
        }
        ExtraCase { cols, extra, if_not_exists, via_build, take }
    })
}
