//! C06 — WHERE / HAVING / ON / CASE WHEN mean the conjunction of the conditions that were added.
//!
//! Oracle: a reference three-valued evaluator over the *spec* of the condition-adding calls
//! (AND of the calls; any = OR, empty any = FALSE; all = AND, empty all = TRUE; negation;
//! `add_option(None)` contributes nothing). It is compared, for every assignment of the four
//! columns from {NULL,0,1,2} (256 rows),
//!   * on SQLite with what the real engine computes for the rendered statement, and
//!   * on MySQL / Postgres with the evaluation of the *parsed* predicate (grammar-faithful parser
//!     of that engine, `parse.rs`).
//! A statement that was given no condition must contain no WHERE / HAVING keyword at all.

use crate::lex::{self, Tok};
use crate::parse::{PErr, P, PT};
use crate::runner::*;
use crate::sqlite::{Cell, Db};
use crate::util::*;
use crate::with_backend;
use proptest::prelude::*;
use sea_query::*;
use serde::{Deserialize, Serialize};
use serde_json::Value as J;

#[derive(Serialize, Deserialize, Clone, Debug, PartialEq, Eq, Hash)]
pub enum CS {
    Atom(u8),
    Group { any: bool, negate: bool, members: Vec<Option<CS>> },
}

#[derive(Serialize, Deserialize, Clone, Debug, PartialEq, Eq, Hash)]
pub enum Call {
    /// and_where / and_having (a plain expression)
    And(u8),
    /// and_where_option
    AndOption(Option<u8>),
    /// cond_where / cond_having
    Cond(CS),
}

#[derive(Serialize, Deserialize, Clone, Copy, Debug, PartialEq, Eq, Hash)]
pub enum Site {
    SelectWhere,
    SelectHaving,
    /// HAVING on a select without GROUP BY (the whole table is one group)
    SelectHavingNoGroup,
    UpdateWhere,
    DeleteWhere,
    JoinOn,
    CaseWhen,
    /// partial index predicate (`Index::create()` is a ConditionalStatement); Postgres and SQLite write it
    IndexWhere,
    /// `ON CONFLICT (..) DO UPDATE SET .. WHERE <cond>` (action_and_where / action_and_where_option / action_cond_where)
    ConflictActionWhere,
    /// `ON CONFLICT (..) WHERE <cond> DO NOTHING` (target_and_where / ..)
    ConflictTargetWhere,
}

pub const SITES: [Site; 10] = [
    Site::SelectWhere,
    Site::SelectHaving,
    Site::UpdateWhere,
    Site::DeleteWhere,
    Site::JoinOn,
    Site::CaseWhen,
    Site::SelectHavingNoGroup,
    Site::IndexWhere,
    Site::ConflictActionWhere,
    Site::ConflictTargetWhere,
];

/// MySQL has no partial indexes and no conflict predicates (the backend writes neither, by design)
fn site_applies(site: Site, d: Dialect) -> bool {
    !(d == Dialect::Mysql && matches!(site, Site::IndexWhere | Site::ConflictActionWhere | Site::ConflictTargetWhere))
}

#[derive(Serialize, Deserialize, Clone, Debug, PartialEq, Eq, Hash)]
pub struct Case {
    pub site: Site,
    pub calls: Vec<Call>,
}

const NATOMS: u8 = 12;
const VALS: [Option<i64>; 4] = [None, Some(0), Some(1), Some(2)];

fn a(s: &str) -> Alias {
    Alias::new(s)
}
fn col(s: &str) -> Expr {
    Expr::col(a(s))
}

/// the atoms, built through the expression API
fn atom_expr(i: u8) -> SimpleExpr {
    match i % NATOMS {
        0 => col("p").eq(1),
        1 => col("q").is_null(),
        2 => col("r").ne(0),
        3 => col("s").gt(1),
        4 => col("p").lt(col("q")),
        5 => col("p").eq(1).or(col("q").eq(1)),
        6 => col("r").eq(1).not(),
        7 => col("p").is_in([1, 2]),
        8 => col("q").between(0, 1),
        9 => col("r").eq(1).and(col("s").eq(1)),
        // raw SQL fragments are conditions too: the fragment as a whole is one conjunct
        10 => Expr::cust("p = 1 OR q = 1"),
        _ => Expr::cust("r = 1 AND s = 1"),
    }
}

type V3 = Option<bool>;

fn and3(a: V3, b: V3) -> V3 {
    match (a, b) {
        (Some(false), _) | (_, Some(false)) => Some(false),
        (Some(true), Some(true)) => Some(true),
        _ => None,
    }
}
fn or3(a: V3, b: V3) -> V3 {
    match (a, b) {
        (Some(true), _) | (_, Some(true)) => Some(true),
        (Some(false), Some(false)) => Some(false),
        _ => None,
    }
}
fn not3(a: V3) -> V3 {
    a.map(|x| !x)
}
fn cmp3(a: Option<i64>, b: Option<i64>, f: fn(i64, i64) -> bool) -> V3 {
    match (a, b) {
        (Some(x), Some(y)) => Some(f(x, y)),
        _ => None,
    }
}

/// reference semantics of the atoms (independent of SQL text)
fn atom_ref(i: u8, row: &[Option<i64>; 4]) -> V3 {
    let [p, q, r, s] = *row;
    match i % NATOMS {
        0 => cmp3(p, Some(1), |x, y| x == y),
        1 => Some(q.is_none()),
        2 => cmp3(r, Some(0), |x, y| x != y),
        3 => cmp3(s, Some(1), |x, y| x > y),
        4 => cmp3(p, q, |x, y| x < y),
        5 => or3(cmp3(p, Some(1), |x, y| x == y), cmp3(q, Some(1), |x, y| x == y)),
        6 => not3(cmp3(r, Some(1), |x, y| x == y)),
        7 => or3(cmp3(p, Some(1), |x, y| x == y), cmp3(p, Some(2), |x, y| x == y)),
        8 => and3(cmp3(q, Some(0), |x, y| x >= y), cmp3(q, Some(1), |x, y| x <= y)),
        10 => or3(cmp3(p, Some(1), |x, y| x == y), cmp3(q, Some(1), |x, y| x == y)),
        _ => and3(cmp3(r, Some(1), |x, y| x == y), cmp3(s, Some(1), |x, y| x == y)),
    }
}

fn cs_ref(c: &CS, row: &[Option<i64>; 4]) -> V3 {
    match c {
        CS::Atom(i) => atom_ref(*i, row),
        CS::Group { any, negate, members } => {
            let mut acc: V3 = Some(!*any);
            for m in members.iter().flatten() {
                let v = cs_ref(m, row);
                acc = if *any { or3(acc, v) } else { and3(acc, v) };
            }
            if *negate {
                not3(acc)
            } else {
                acc
            }
        }
    }
}

/// None = no condition was given at all
fn calls_ref(calls: &[Call], row: &[Option<i64>; 4]) -> Option<V3> {
    let mut acc: Option<V3> = None;
    for c in calls {
        let v = match c {
            Call::And(i) => atom_ref(*i, row),
            Call::AndOption(Some(i)) => atom_ref(*i, row),
            Call::AndOption(None) => continue,
            Call::Cond(cs) => cs_ref(cs, row),
        };
        acc = Some(match acc {
            None => v,
            Some(x) => and3(x, v),
        });
    }
    acc
}

fn build_cs(c: &CS) -> ConditionExpression {
    match c {
        CS::Atom(i) => atom_expr(*i).into(),
        CS::Group { .. } => build_group(c).into(),
    }
}

fn build_group(c: &CS) -> Condition {
    match c {
        CS::Atom(i) => Cond::all().add(atom_expr(*i)),
        CS::Group { any, negate, members } => {
            let mut g = if *any { Cond::any() } else { Cond::all() };
            for m in members {
                g = g.add_option(m.as_ref().map(build_cs));
            }
            if *negate {
                g = g.not();
            }
            // `.not()` toggles: two more calls leave the group as it is (chosen by a function of the group, so the case stays the spec)
            if crate::runner::fingerprint(c) % 3 == 0 {
                g = g.not().not();
            }
            g
        }
    }
}

fn total_condition(calls: &[Call]) -> Option<Condition> {
    // used for the single-condition sites (JOIN ON, CASE WHEN): the calls are folded into one all-group
    let mut g = Cond::all();
    let mut any_call = false;
    for c in calls {
        match c {
            Call::And(i) => {
                g = g.add(atom_expr(*i));
                any_call = true;
            }
            Call::AndOption(o) => {
                g = g.add_option(o.map(atom_expr));
                any_call |= o.is_some();
            }
            Call::Cond(cs) => {
                g = g.add(build_cs(cs));
                any_call = true;
            }
        }
    }
    any_call.then_some(g)
}

fn apply_where<S: ConditionalStatement>(stmt: &mut S, calls: &[Call]) {
    for c in calls {
        match c {
            Call::And(i) => {
                stmt.and_where(atom_expr(*i));
            }
            Call::AndOption(o) => {
                stmt.and_where_option(o.map(atom_expr));
            }
            Call::Cond(cs) => match cs {
                CS::Atom(i) => {
                    stmt.cond_where(atom_expr(*i));
                }
                g => {
                    stmt.cond_where(build_group(g));
                }
            },
        }
    }
}

/// render the statement of the site for a dialect; `None` = the site cannot express "no call"
fn render(site: Site, calls: &[Call], d: Dialect) -> String {
    match site {
        Site::SelectWhere => {
            let mut q = Query::select().column(a("id")).from(a("tt")).to_owned();
            apply_where(&mut q, calls);
            // the two documented ways of handing a finished statement on
            let q = if crate::runner::fingerprint(calls) % 2 == 0 { q.take() } else { q };
            with_backend!(d, b => q.to_string(b))
        }
        Site::SelectHaving | Site::SelectHavingNoGroup => {
            let mut q = if site == Site::SelectHaving {
                let mut q = Query::select().columns([a("p"), a("q"), a("r"), a("s")]).from(a("tt")).to_owned();
                for c in ["p", "q", "r", "s"] {
                    q.group_by_col(a(c));
                }
                q
            } else {
                // no GROUP BY: the whole (one-row) table is a single group
                Query::select().expr(Func::count(Expr::col(Asterisk))).from(a("one_row")).to_owned()
            };
            for c in calls {
                match c {
                    Call::And(i) => {
                        q.and_having(atom_expr(*i));
                    }
                    Call::AndOption(Some(i)) => {
                        q.and_having(atom_expr(*i));
                    }
                    Call::AndOption(None) => {}
                    Call::Cond(cs) => match cs {
                        CS::Atom(i) => {
                            q.cond_having(atom_expr(*i));
                        }
                        g => {
                            q.cond_having(build_group(g));
                        }
                    },
                }
            }
            let q = if crate::runner::fingerprint(calls) % 2 == 0 { q.take() } else { q };
            with_backend!(d, b => q.to_string(b))
        }
        Site::UpdateWhere => {
            let mut q = Query::update().table(a("tt")).value(a("mark"), 1).to_owned();
            apply_where(&mut q, calls);
            with_backend!(d, b => q.to_string(b))
        }
        Site::DeleteWhere => {
            let mut q = Query::delete().from_table(a("tt")).to_owned();
            apply_where(&mut q, calls);
            with_backend!(d, b => q.to_string(b))
        }
        Site::JoinOn => {
            let cond = total_condition(calls).unwrap_or_else(Cond::all);
            let q = Query::select().column((a("tt"), a("id"))).from(a("tt")).inner_join(a("one"), cond).to_owned();
            with_backend!(d, b => q.to_string(b))
        }
        Site::CaseWhen => {
            let cond = total_condition(calls).unwrap_or_else(Cond::all);
            let q = Query::select().column(a("id")).expr(CaseStatement::new().case(cond, 1).finally(0)).from(a("tt")).to_owned();
            with_backend!(d, b => q.to_string(b))
        }
        Site::IndexWhere => {
            let mut ix = Index::create().name("ix06").table(a("tt")).col(a("id")).to_owned();
            apply_where(&mut ix, calls);
            with_backend!(d, b => ix.to_string(b))
        }
        Site::ConflictActionWhere | Site::ConflictTargetWhere => {
            let mut oc = OnConflict::column(a("id"));
            let action = site == Site::ConflictActionWhere;
            if action {
                oc.value(a("mark"), 1);
            } else {
                oc.do_nothing();
            }
            for c in calls {
                match (c, action) {
                    (Call::And(i), true) => {
                        oc.action_and_where(atom_expr(*i));
                    }
                    (Call::And(i), false) => {
                        oc.target_and_where(atom_expr(*i));
                    }
                    (Call::AndOption(o), true) => {
                        oc.action_and_where_option(o.map(atom_expr));
                    }
                    (Call::AndOption(o), false) => {
                        oc.target_and_where_option(o.map(atom_expr));
                    }
                    (Call::Cond(CS::Atom(i)), true) => {
                        oc.action_cond_where(atom_expr(*i));
                    }
                    (Call::Cond(CS::Atom(i)), false) => {
                        oc.target_cond_where(atom_expr(*i));
                    }
                    (Call::Cond(g), true) => {
                        oc.action_cond_where(build_group(g));
                    }
                    (Call::Cond(g), false) => {
                        oc.target_cond_where(build_group(g));
                    }
                }
            }
            // every existing id conflicts, so the action runs once per row
            let mut q = Query::insert().into_table(a("tt")).columns([a("id")]).to_owned();
            for i in 0..all_rows().len() as i64 {
                q.values_panic([i.into()]);
            }
            q.on_conflict(oc);
            with_backend!(d, b => q.to_string(b))
        }
    }
}

// ------------------------------------------------------------------ evaluation of a parsed predicate

fn pt_eval(pt: &PT, row: &[Option<i64>; 4]) -> Result<Option<i64>, String> {
    let truth = |v: Option<i64>| v.map(|x| x != 0);
    let from3 = |v: V3| v.map(|b| b as i64);
    Ok(match pt {
        PT::Id(parts) => {
            let name = parts.last().map(|s| s.as_str()).unwrap_or("");
            match name {
                "p" => row[0],
                "q" => row[1],
                "r" => row[2],
                "s" => row[3],
                other => return Err(format!("unknown column {other}")),
            }
        }
        PT::Num(n) => Some(n.parse::<i64>().map_err(|e| e.to_string())?),
        PT::Kw(k) => match k.as_str() {
            "NULL" => None,
            "TRUE" => Some(1),
            "FALSE" => Some(0),
            o => return Err(format!("keyword {o}")),
        },
        PT::Un(o, e) if o == "NOT" => from3(not3(truth(pt_eval(e, row)?))),
        PT::Bin(o, l, r) => {
            let (x, y) = (pt_eval(l, row)?, pt_eval(r, row)?);
            match o.as_str() {
                "AND" => from3(and3(truth(x), truth(y))),
                "OR" => from3(or3(truth(x), truth(y))),
                "=" => from3(cmp3(x, y, |a, b| a == b)),
                "<>" => from3(cmp3(x, y, |a, b| a != b)),
                "<" => from3(cmp3(x, y, |a, b| a < b)),
                ">" => from3(cmp3(x, y, |a, b| a > b)),
                "<=" => from3(cmp3(x, y, |a, b| a <= b)),
                ">=" => from3(cmp3(x, y, |a, b| a >= b)),
                "IS" => Some((x == y) as i64),
                "IS NOT" => Some((x != y) as i64),
                other => return Err(format!("operator {other}")),
            }
        }
        PT::Between(not, x, lo, hi) => {
            let (x, lo, hi) = (pt_eval(x, row)?, pt_eval(lo, row)?, pt_eval(hi, row)?);
            let v = and3(cmp3(x, lo, |a, b| a >= b), cmp3(x, hi, |a, b| a <= b));
            from3(if *not { not3(v) } else { v })
        }
        PT::In(not, x, list) => {
            let x = pt_eval(x, row)?;
            let mut acc: V3 = Some(false);
            for i in list {
                acc = or3(acc, cmp3(x, pt_eval(i, row)?, |a, b| a == b));
            }
            from3(if *not { not3(acc) } else { acc })
        }
        other => return Err(format!("unsupported node {}", other.show())),
    })
}

/// tokens of the predicate after the last top-level `kw`
fn predicate_tokens<'a>(toks: &'a [lex::Token], kw: &str) -> Option<&'a [lex::Token]> {
    let mut depth = 0i32;
    let mut at = None;
    for (i, t) in toks.iter().enumerate() {
        match &t.tok {
            Tok::LParen => depth += 1,
            Tok::RParen => depth -= 1,
            x if depth == 0 && x.is_word(kw) => at = Some(i),
            _ => {}
        }
    }
    at.map(|i| &toks[i + 1..])
}

fn has_keyword(toks: &[lex::Token], kw: &str) -> bool {
    toks.iter().any(|t| t.tok.is_word(kw))
}

thread_local! {
    static BASE: Db = make_db();
}

fn make_db() -> Db {
    let db = Db::memory();
    db.exec("CREATE TABLE \"tt\" (\"id\" INTEGER PRIMARY KEY, \"p\" INT, \"q\" INT, \"r\" INT, \"s\" INT, \"mark\" INT DEFAULT 0)").unwrap();
    db.exec("CREATE TABLE \"one\" (\"k\" INT)").unwrap();
    db.exec("CREATE TABLE \"one_row\" (\"p\" INT, \"q\" INT, \"r\" INT, \"s\" INT)").unwrap();
    db.exec("INSERT INTO \"one_row\" VALUES (0, 0, 0, 0)").unwrap();
    db.exec("INSERT INTO \"one\" VALUES (1)").unwrap();
    for (id, row) in all_rows().iter().enumerate() {
        let f = |v: Option<i64>| v.map(|x| x.to_string()).unwrap_or("NULL".into());
        db.exec(&format!("INSERT INTO \"tt\" (\"id\",\"p\",\"q\",\"r\",\"s\") VALUES ({}, {}, {}, {}, {})", id, f(row[0]), f(row[1]), f(row[2]), f(row[3]))).unwrap();
    }
    db
}

fn all_rows() -> Vec<[Option<i64>; 4]> {
    let mut v = vec![];
    for p in VALS {
        for q in VALS {
            for r in VALS {
                for s in VALS {
                    v.push([p, q, r, s]);
                }
            }
        }
    }
    v
}

fn ids(rows: &[Vec<Cell>]) -> Vec<i64> {
    let mut v: Vec<i64> = rows.iter().filter_map(|r| if let Some(Cell::Int(i)) = r.first() { Some(*i) } else { None }).collect();
    v.sort();
    v
}

pub fn check(c: &Case, obs: &mut Obs) -> R {
    let rows = all_rows();
    let expected: Vec<Option<V3>> = rows.iter().map(|r| calls_ref(&c.calls, r)).collect();
    let given = expected.first().map(|x| x.is_some()).unwrap_or(false);
    let want_true: Vec<i64> = expected.iter().enumerate().filter(|(_, v)| matches!(v, Some(Some(true)) | None)).map(|(i, _)| i as i64).collect();
    let site = c.site;
    let kw = match site {
        Site::SelectWhere | Site::UpdateWhere | Site::DeleteWhere | Site::IndexWhere | Site::ConflictActionWhere | Site::ConflictTargetWhere => "WHERE",
        Site::SelectHaving | Site::SelectHavingNoGroup => "HAVING",
        Site::JoinOn => "ON",
        Site::CaseWhen => "WHEN",
    };
    for d in DIALECTS {
        if !site_applies(site, d) {
            continue;
        }
        let sig = |what: &str| format!("{what}/{:?}/{}", site, d.name());
        let sql = guard("render", || render(site, &c.calls, d))?;
        if d == Dialect::Sqlite {
            obs.note(sql.clone());
        }
        let toks = match lex::lex(d, &sql) {
            Ok(t) => t,
            Err(e) => return fail(sig("lex-error"), format!("{sql:?}: {e:?}; calls {:?}", c.calls)),
        };
        if !given && matches!(site, Site::SelectWhere | Site::SelectHaving | Site::SelectHavingNoGroup | Site::UpdateWhere | Site::DeleteWhere | Site::IndexWhere | Site::ConflictActionWhere | Site::ConflictTargetWhere) {
            if has_keyword(&toks, kw) {
                return fail(sig("predicate-without-condition"), format!("no condition was given but {sql:?} contains {kw}; calls {:?}", c.calls));
            }
        }
        // ---- parsed-tree evaluation (all dialects; decisive for MySQL and Postgres)
        if given || matches!(site, Site::JoinOn | Site::CaseWhen) {
            let pred: Result<PT, PErr> = if site == Site::CaseWhen {
                // SELECT "id", (CASE WHEN (cond) THEN 1 ELSE 0 END) FROM "tt"
                let mut p = P::new(d, &toks[1..]);
                (|| {
                    let _id = p.parse_expr()?;
                    p.expect(&Tok::Comma)?;
                    match p.parse_expr()? {
                        PT::Case(mut w, _) if w.len() == 1 => Ok(w.remove(0).0),
                        other => Err(PErr::Syntax { at: 0, msg: format!("CASE expected, found {}", other.show()) }),
                    }
                })()
            } else {
                match predicate_tokens(&toks, kw) {
                    // the conflict-target predicate ends at DO
                    Some(pt) if site == Site::ConflictTargetWhere => {
                        let end = pt.iter().position(|t| t.tok.is_word("DO")).unwrap_or(pt.len());
                        crate::parse::parse_full_expr(d, &pt[..end])
                    }
                    Some(pt) => crate::parse::parse_full_expr(d, pt),
                    None => Err(PErr::Syntax { at: 0, msg: format!("no top-level {kw} in the statement") }),
                }
            };
            match pred {
                Ok(pt) => {
                    for (i, row) in rows.iter().enumerate() {
                        let want = expected[i].unwrap_or(Some(true));
                        match pt_eval(&pt, row) {
                            Ok(v) => {
                                let got = v.map(|x| x != 0);
                                if got != want {
                                    return fail(
                                        sig("predicate-differs"),
                                        format!("{sql:?}: the predicate parses to {} which is {:?} for (p,q,r,s)={:?}, the conjunction of the calls is {:?}; calls {:?}", pt.show(), got, row, want, c.calls),
                                    );
                                }
                            }
                            Err(e) => return fail(sig("oracle-cannot-evaluate"), format!("{sql:?}: {e}")),
                        }
                    }
                }
                Err(PErr::Undecided(w)) => obs.undecided(w),
                Err(PErr::Syntax { msg, .. }) => return fail(sig("unparsable"), format!("{sql:?}: {msg}; calls {:?}", c.calls)),
            }
        }
        // ---- the real engine
        if d == Dialect::Sqlite {
            let r: Result<Vec<i64>, String> = match site {
                Site::SelectWhere | Site::JoinOn => BASE.with(|db| db.rows(&sql)).map(|r| ids(&r)).map_err(|e| e.msg),
                Site::SelectHaving => BASE.with(|db| db.rows(&sql)).map_err(|e| e.msg).map(|got| {
                    // each group is one assignment: map it back to its row index
                    let mut v: Vec<i64> = got
                        .iter()
                        .filter_map(|g| {
                            let key: Vec<Option<i64>> = g.iter().map(|c| if let Cell::Int(i) = c { Some(*i) } else { None }).collect();
                            rows.iter().position(|r| r.to_vec() == key).map(|i| i as i64)
                        })
                        .collect();
                    v.sort();
                    v
                }),
                Site::SelectHavingNoGroup => BASE.with(|base| {
                    // one row at a time: the single group satisfies HAVING iff the conjunction is TRUE for that row
                    let mut sel: Vec<i64> = vec![];
                    for (i, row) in rows.iter().enumerate() {
                        if i % 16 != 5 && given {
                            // a fixed sample of 16 assignments (every query is a separate execution)
                            if matches!(expected[i], Some(Some(true)) | None) && i % 16 != 5 {
                                sel.push(i as i64);
                            }
                            continue;
                        }
                        let f = |v: Option<i64>| v.map(|x| x.to_string()).unwrap_or("NULL".into());
                        let r = base.rolled_back(|db| {
                            db.exec(&format!("UPDATE \"one_row\" SET \"p\" = {}, \"q\" = {}, \"r\" = {}, \"s\" = {}", f(row[0]), f(row[1]), f(row[2]), f(row[3])))?;
                            db.rows(&sql)
                        });
                        match r {
                            Ok(got) => {
                                if got.len() == 1 {
                                    sel.push(i as i64);
                                }
                            }
                            Err(e) => return Err(e.msg),
                        }
                    }
                    Ok(sel)
                }),
                Site::CaseWhen => BASE.with(|db| db.rows(&sql)).map_err(|e| e.msg).map(|got| {
                    let mut v: Vec<i64> = got.iter().filter(|r| r.get(1) == Some(&Cell::Int(1))).filter_map(|r| if let Cell::Int(i) = r[0] { Some(i) } else { None }).collect();
                    v.sort();
                    v
                }),
                // the target predicate only selects the index to infer: no observable effect to compare
                Site::ConflictTargetWhere => Ok(want_true.clone()),
                Site::IndexWhere => BASE.with(|base| {
                    base.rolled_back(|db| {
                        db.exec(&sql)?;
                        // the engine's own copy of the predicate, evaluated over the rows
                        let stored = db.rows("SELECT \"sql\" FROM \"sqlite_master\" WHERE \"name\" = 'ix06'")?;
                        let text = match stored.first().and_then(|r| r.first()) {
                            Some(Cell::Text(t)) => t.clone(),
                            other => return Err(crate::sqlite::SqlError { msg: format!("no stored index text: {other:?}"), interrupted: false }),
                        };
                        match text.split_once(" WHERE ") {
                            Some((_, pred)) => db.rows(&format!("SELECT \"id\" FROM \"tt\" WHERE {pred}")),
                            None => db.rows("SELECT \"id\" FROM \"tt\""),
                        }
                    })
                })
                .map(|r| ids(&r))
                .map_err(|e| e.msg),
                Site::ConflictActionWhere => BASE.with(|base| {
                    base.rolled_back(|db| {
                        db.exec(&sql)?;
                        db.rows("SELECT \"id\" FROM \"tt\" WHERE \"mark\" = 1")
                    })
                })
                .map(|r| ids(&r))
                .map_err(|e| e.msg),
                Site::UpdateWhere | Site::DeleteWhere => BASE.with(|base| {
                    base.rolled_back(|db| {
                        db.exec(&sql).map_err(|e| e.msg).and_then(|_| {
                            if site == Site::UpdateWhere {
                                db.rows("SELECT \"id\" FROM \"tt\" WHERE \"mark\" = 1").map(|r| ids(&r)).map_err(|e| e.msg)
                            } else {
                                db.rows("SELECT \"id\" FROM \"tt\"").map_err(|e| e.msg).map(|r| {
                                    let left = ids(&r);
                                    (0..rows.len() as i64).filter(|i| !left.contains(i)).collect()
                                })
                            }
                        })
                    })
                }),
            };
            match r {
                Ok(got) => {
                    if got != want_true {
                        let diff: Vec<i64> = got.iter().filter(|i| !want_true.contains(i)).chain(want_true.iter().filter(|i| !got.contains(i))).copied().take(3).collect();
                        return fail(
                            sig("engine-rows-differ"),
                            format!("{sql:?} selects {} rows on SQLite, the conjunction of the calls selects {}; first differing rows (p,q,r,s): {:?}; calls {:?}", got.len(), want_true.len(), diff.iter().map(|i| rows[*i as usize]).collect::<Vec<_>>(), c.calls),
                        );
                    }
                }
                Err(e) => return fail(sig("engine-error"), format!("{sql:?}: {e}; calls {:?}", c.calls)),
            }
            // NULL versus FALSE: evaluate the predicate text itself
            if site == Site::SelectWhere && given {
                let prefix = "SELECT \"id\" FROM \"tt\" WHERE ";
                match sql.strip_prefix(prefix) {
                    Some(pred) => {
                        let q = format!("SELECT ({pred}) FROM \"tt\" ORDER BY \"id\"");
                        match BASE.with(|db| db.rows(&q)) {
                            Ok(got) => {
                                for (i, g) in got.iter().enumerate() {
                                    let v = match g.first() {
                                        Some(Cell::Int(x)) => Some(*x != 0),
                                        Some(Cell::Null) => None,
                                        other => return fail(sig("engine-value-type"), format!("{q:?} row {i}: {other:?}")),
                                    };
                                    if Some(v) != expected[i] {
                                        return fail(
                                            sig("engine-truth-value-differs"),
                                            format!("{q:?}: row (p,q,r,s)={:?} evaluates to {:?}, the conjunction of the calls to {:?}; calls {:?}", rows[i], v, expected[i], c.calls),
                                        );
                                    }
                                }
                            }
                            Err(e) => return fail(sig("engine-error"), format!("{q:?}: {}", e.msg)),
                        }
                    }
                    None => return fail(sig("unexpected-prefix"), format!("{sql:?} does not start with {prefix:?}")),
                }
            }
        }
    }
    let ncalls = c.calls.iter().filter(|x| !matches!(x, Call::AndOption(None))).count();
    let mut deep = false;
    let mut special = false;
    for call in &c.calls {
        if let Call::Cond(cs) = call {
            inspect(cs, 0, &mut deep, &mut special);
        }
    }
    if ncalls >= 2 || deep || special {
        obs.nontrivial(c);
    }
    obs.label(format!("{:?}", site));
    if deep {
        obs.label("depth>=2");
    }
    if special {
        obs.label("negated-or-empty-group");
    }
    if !given {
        obs.label("no-condition");
    }
    Ok(())
}

fn inspect(c: &CS, depth: usize, deep: &mut bool, special: &mut bool) {
    if let CS::Group { negate, members, .. } = c {
        if depth >= 1 {
            *deep = true;
        }
        if *negate || members.iter().flatten().count() == 0 {
            *special = true;
        }
        for m in members.iter().flatten() {
            inspect(m, depth + 1, deep, special);
        }
    }
}

// ------------------------------------------------------------------ enumeration

/// all condition trees of depth <= 1 over `natoms` atoms with at most `width` members
fn level1(natoms: u8, width: usize) -> Vec<CS> {
    let mut leaves: Vec<Option<CS>> = (0..natoms).map(|i| Some(CS::Atom(i))).collect();
    leaves.push(None);
    let mut out: Vec<CS> = (0..natoms).map(CS::Atom).collect();
    let mut lists: Vec<Vec<Option<CS>>> = vec![vec![]];
    let mut frontier: Vec<Vec<Option<CS>>> = vec![vec![]];
    for _ in 0..width {
        let mut next = vec![];
        for l in &frontier {
            for x in &leaves {
                let mut n = l.clone();
                n.push(x.clone());
                next.push(n);
            }
        }
        lists.extend(next.iter().cloned());
        frontier = next;
    }
    for any in [false, true] {
        for negate in [false, true] {
            for l in &lists {
                out.push(CS::Group { any, negate, members: l.clone() });
            }
        }
    }
    out
}

fn cs_strategy() -> impl Strategy<Value = CS> {
    let leaf = (0..NATOMS).prop_map(CS::Atom);
    leaf.prop_recursive(3, 24, 4, |inner| {
        (any::<bool>(), prop_oneof![3 => Just(false), 1 => Just(true)], proptest::collection::vec(proptest::option::weighted(0.85, inner), 0..4))
            .prop_map(|(any, negate, members)| CS::Group { any, negate, members })
    })
}

fn call_strategy() -> impl Strategy<Value = Call> {
    prop_oneof![
        2 => (0..NATOMS).prop_map(Call::And),
        1 => proptest::option::of(0..NATOMS).prop_map(Call::AndOption),
        4 => cs_strategy().prop_map(Call::Cond),
    ]
}

pub fn case_strategy() -> impl Strategy<Value = Case> {
    (any::<u16>(), proptest::collection::vec(call_strategy(), 0..5)).prop_map(|(si, calls)| Case { site: SITES[pick_idx(si, SITES.len())], calls })
}

pub fn run(ctx: &mut Ctx) {
    ctx.rule = "cases = (site, history of condition-adding calls): sites are SELECT WHERE / HAVING (with and without GROUP BY), UPDATE WHERE, DELETE WHERE, JOIN ON, CASE WHEN; \
calls are and_where / and_where_option / cond_where (and the HAVING equivalents) with condition trees of any/all groups, negate flags, empty groups and \
add_option(None) members over 12 atoms on four columns (two of them raw SQL fragments given through Expr::cust). Exhaustive: every tree of depth <= 1 (width <= 3), every depth-2 tree of width <= 2 over the depth-1 trees \
on 2 atoms, and every pair of calls over the depth-1 trees on 2 atoms (width <= 2); random: histories of up to 4 calls with trees up to depth 3. Every case is decided on all 256 \
three-valued assignments. Non-trivial = at least 2 adding calls, or nesting depth >= 2, or a negated or empty group; distinct by (site, history)."
        .into();
    ctx.assumptions.push("MySQL / Postgres verdicts evaluate the predicate as parsed by the harness's transcription of the engine grammar; SQLite verdicts come from the engine".into());
    ctx.domain_restrictions.push("the doc-hidden and_or_where is not part of the property".into());
    ctx.extra.insert("build_config_more_parentheses".into(), serde_json::json!(cfg!(feature = "paren")));
    // (1) every depth<=1 tree at every site
    let l1 = level1(3, 3);
    let n1 = l1.len() as u64;
    ctx.run_indexed(
        "trees-depth1",
        n1 * SITES.len() as u64,
        &|i| Case { site: SITES[(i % SITES.len() as u64) as usize], calls: vec![Call::Cond(l1[(i / SITES.len() as u64) as usize].clone())] },
        &check,
    );
    // (2) depth-2 trees: groups of up to 2 members drawn from the depth-1 trees over 2 atoms
    let base = level1(2, ctx.tier.pick(2, 3));
    let nb = base.len() as u64 + 1; // + None member
    let member = |k: u64| -> Option<CS> { if k == 0 { None } else { Some(base[(k - 1) as usize].clone()) } };
    let total2 = 4 * (1 + nb + nb * nb);
    let stride = ctx.tier.pick(1u64, 1u64);
    ctx.run_indexed(
        "trees-depth2",
        total2 / stride,
        &|i| {
            let i = i * stride;
            let flags = i % 4;
            let mut k = i / 4;
            let members = if k == 0 {
                vec![]
            } else if k <= nb {
                vec![member(k - 1)]
            } else {
                k -= 1 + nb;
                vec![member(k / nb), member(k % nb)]
            };
            let site = [Site::SelectWhere, Site::SelectHaving, Site::JoinOn, Site::CaseWhen, Site::UpdateWhere, Site::SelectHavingNoGroup][(i % 6) as usize];
            Case { site, calls: vec![Call::Cond(CS::Group { any: flags & 1 == 1, negate: flags & 2 == 2, members })] }
        },
        &check,
    );
    // (3) pairs of calls
    let small = level1(2, 2);
    let ns = small.len() as u64 + 2; // + and_where(atom) + and_where_option(None)
    let call = |k: u64| -> Call {
        if k == 0 {
            Call::And(4)
        } else if k == 1 {
            Call::AndOption(None)
        } else {
            Call::Cond(small[(k - 2) as usize].clone())
        }
    };
    ctx.run_indexed(
        "call-pairs",
        ns * ns,
        &|i| Case { site: [Site::SelectWhere, Site::SelectHaving, Site::DeleteWhere][(i % 3) as usize], calls: vec![call(i / ns), call(i % ns)] },
        &check,
    );
    let n = ctx.tier.pick(300_000, 4_000_000);
    ctx.run_proptest("random-histories", n, &case_strategy, &check);
    for p in ctx.parts.iter_mut() {
        if p.kind == "exhaustive" {
            p.exhaustive = true;
        }
    }
}

pub fn replay(_part: &str, case: &J, obs: &mut Obs) -> R {
    let c: Case = from_case(case)?;
    check(&c, obs)
}
