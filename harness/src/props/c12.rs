//! C12 — Rust values survive the trip through `Value` unchanged.
//!
//! Oracle (explicit, never sea-query against itself): every case is a serialisable description `X`
//! of a Rust value. From it the harness builds the value `x: T`, and independently knows (a) the
//! `Value` variant whose payload type is `T` (read off the enum definition, `Ty::kind`) and (b) a
//! canonical bit/text form of `x` (`Canon`: float bits, Decimal's 128 bits incl. scale, date-time
//! *and* offset, ...). A `Value` is observed by pattern matching only (`describe`).
//!   * `Value::from(x)` is the non-NULL value of T's variant holding x; `T::try_from`, `Value::unwrap`,
//!     `Value::expect` give x back (canon equality);
//!   * `Some(x)` converts like x and extracts as `Some(x)` (never `None`); `None::<T>` and `T::null()` are
//!     the NULL of T's variant (for `Vec<E>`: with E's array type), extract as `None` through
//!     `Option<T>` and fail through `T`;
//!   * extraction as any of the 69 supported types (and their Options) whose variant differs is `Err`;
//!     with the same variant it is never a different value;
//!   * `as_null` / `dummy_value` keep the variant (and array type), giving NULL / non-NULL;
//!   * tuples: see `tuples.rs`.

pub mod gen;
mod model;
mod tuples;

use crate::runner::*;
use gen::*;
use model::*;
use sea_query::{Nullable, Value, ValueType};
use serde::{Deserialize, Serialize};
use serde_json::Value as J;
use std::borrow::Cow;

// ------------------------------------------------------------------------------------------------
// single values

fn expect_desc(v: &Value, kind: Kind, canon: Option<&str>, sig: &str, what: &str) -> R {
    let d = describe(v);
    if d.kind != kind {
        return fail(format!("{sig}"), format!("{what}: expected variant {kind:?}, got {:?} ({:?})", d.kind, d.canon));
    }
    if d.canon.as_deref() != canon {
        return fail(format!("{sig}"), format!("{what}: expected {:?} in {kind:?}, got {:?}", canon, d.canon));
    }
    Ok(())
}

/// `as_null` / `dummy_value` keep the variant (and the array type)
fn check_null_dummy(v: &Value, kind: Kind) -> R {
    let a = guard("as_null", || v.as_null())?;
    let da = describe(&a);
    if da.kind != kind || da.canon.is_some() || std::mem::discriminant(&a) != std::mem::discriminant(v) {
        return fail(format!("as_null/{kind:?}"), format!("as_null of a {kind:?} value is {:?} {:?}", da.kind, da.canon));
    }
    let dm = guard("dummy_value", || v.dummy_value())?;
    let dd = describe(&dm);
    if dd.kind != kind || dd.canon.is_none() || std::mem::discriminant(&dm) != std::mem::discriminant(v) {
        return fail(format!("dummy_value/{kind:?}"), format!("dummy_value of a {kind:?} value is {:?} {:?}", dd.kind, dd.canon));
    }
    Ok(())
}

/// the `is_*` predicates name exactly the value's variant; `as_ref_*` shows the stored value
fn check_accessors<T: Ty>(v: &Value, kind: Kind, canon: Option<&str>) -> R {
    for (k, flag) in is_flags(v) {
        let should = match (k, kind) {
            (Some(k), Kind::S(s)) => k == s,
            (None, Kind::A(_)) => true,
            _ => false,
        };
        if flag != should {
            return fail(
                format!("is-predicate/{}", k.map(|k| format!("{k:?}")).unwrap_or_else(|| "Array".into())),
                format!("a {kind:?} value answers {flag} to the is_* predicate of {k:?}"),
            );
        }
    }
    if let Some(got) = guard("as_ref", || T::as_ref_canon(v))? {
        if got.as_deref() != canon {
            return fail(format!("as_ref/{}", T::NAME), format!("as_ref accessor shows {got:?}, stored {canon:?}"));
        }
    }
    Ok(())
}

fn check_cross(name: &str, kind: Kind, canon: Option<&str>, v: &Value) -> R {
    for t in targets() {
        judge(name, kind, canon, t, false, v)?;
        if t.opt.is_some() {
            judge(name, kind, canon, t, true, v)?;
        }
    }
    Ok(())
}

fn check_core<T: Ty>(x: &T) -> R {
    let name = T::NAME;
    let want = x.canon();
    let kind = T::kind();
    let v: Value = guard("into", || x.clone().into())?;
    expect_desc(&v, kind, Some(&want), &format!("into/{name}"), &format!("Value::from({name})"))?;
    match guard("try_from", || <T as ValueType>::try_from(v.clone()))? {
        Ok(y) => {
            let got = y.canon();
            if got != want {
                return fail(format!("roundtrip/{name}"), format!("{name} {want:?} came back as {got:?}"));
            }
        }
        Err(_) => return fail(format!("roundtrip-err/{name}"), format!("{name} {want:?} could not be extracted again")),
    }
    let got = guard("Value::unwrap", || v.clone().unwrap::<T>())?.canon();
    if got != want {
        return fail(format!("unwrap/{name}"), format!("{name} {want:?} unwrapped as {got:?}"));
    }
    let got = guard("Value::expect", || v.clone().expect::<T>("C12"))?.canon();
    if got != want {
        return fail(format!("unwrap/{name}"), format!("{name} {want:?} expect()ed as {got:?}"));
    }
    check_null_dummy(&v, kind)?;
    check_accessors::<T>(&v, kind, Some(&want))?;
    check_tampered_array::<T>(&v)?;
    check_cross(name, kind, Some(&want), &v)
}

/// An array value is a public enum variant and can hold what `From<Vec<E>>` never produces: a NULL element, or an element of
/// another variant. Extracting such an array as `Vec<E>` must fail (error or panic), never return a vector made of the elements
/// that happen to fit.
fn check_tampered_array<T: Ty>(v: &Value) -> R {
    let Value::Array(ty, Some(items)) = v else { return Ok(()) };
    if items.is_empty() {
        return Ok(());
    }
    let null_elem = items[0].as_null();
    let foreign = if matches!(items[0], Value::Bool(_)) { Value::Int(Some(1)) } else { Value::Bool(Some(true)) };
    for (what, extra) in [("null-element", null_elem), ("foreign-element", foreign)] {
        for at in [0usize, items.len() / 2 + 1, items.len()] {
            let mut tampered: Vec<Value> = (**items).clone();
            tampered.insert(at.min(tampered.len()), extra.clone());
            let tv = Value::Array(ty.clone(), Some(Box::new(tampered)));
            let r = std::panic::catch_unwind(std::panic::AssertUnwindSafe(|| <T as ValueType>::try_from(tv.clone())));
            if let Ok(Ok(y)) = r {
                return fail(
                    format!("array-with-{what}-extracted/{}", T::NAME),
                    format!("{tv:?} extracted as {} gave {:?} instead of failing", T::NAME, y.canon()),
                );
            }
        }
    }
    Ok(())
}

fn check_opt<T: Ty + Nullable>(x: &T) -> R {
    let name = T::NAME;
    let want = x.canon();
    let kind = T::kind();
    // present
    let vs: Value = guard("into", || Some(x.clone()).into())?;
    expect_desc(&vs, kind, Some(&want), &format!("some-into/{name}"), &format!("Value::from(Some({name}))"))?;
    match guard("try_from", || <Option<T> as ValueType>::try_from(vs.clone()))? {
        Ok(Some(y)) => {
            let got = y.canon();
            if got != want {
                return fail(format!("roundtrip/Option<{name}>"), format!("Some({want:?}) came back as Some({got:?})"));
            }
        }
        Ok(None) => return fail(format!("some-as-none/Option<{name}>"), format!("Some({want:?}) extracted as None")),
        Err(_) => return fail(format!("roundtrip-err/Option<{name}>"), format!("Some({want:?}) could not be extracted again")),
    }
    match guard("try_from", || <T as ValueType>::try_from(vs.clone()))? {
        Ok(y) if y.canon() == want => {}
        Ok(y) => return fail(format!("roundtrip/{name}"), format!("Some({want:?}) extracted as {name} gave {:?}", y.canon())),
        Err(_) => return fail(format!("roundtrip-err/{name}"), format!("Some({want:?}) could not be extracted as {name}")),
    }
    // absent
    let vn: Value = guard("into", || Option::<T>::None.into())?;
    expect_desc(&vn, kind, None, &format!("none-variant/{name}"), &format!("Value::from(None::<{name}>)"))?;
    let nn: Value = guard("null", || <T as Nullable>::null())?;
    expect_desc(&nn, kind, None, &format!("none-variant/{name}"), &format!("<{name} as Nullable>::null()"))?;
    for (v, how) in [(&vn, "None.into()"), (&nn, "null()")] {
        match guard("try_from", || <Option<T> as ValueType>::try_from(v.clone()))? {
            Ok(None) => {}
            Ok(Some(y)) => {
                return fail(format!("null-as-value/Option<{name}>"), format!("{how} extracted as Some({:?})", y.canon()))
            }
            Err(_) => return fail(format!("none-extract/Option<{name}>"), format!("{how} of {name} does not extract as None")),
        }
        if let Ok(y) = guard("try_from", || <T as ValueType>::try_from(v.clone()))? {
            return fail(format!("null-as-value/{name}"), format!("{how} extracted as the {name} value {:?}", y.canon()));
        }
        let panicked = std::panic::catch_unwind(std::panic::AssertUnwindSafe(|| v.clone().unwrap::<T>())).is_err();
        if !panicked {
            return fail(format!("null-as-value/{name}"), format!("unwrap::<{name}>() of {how} returned a value"));
        }
    }
    check_null_dummy(&vn, kind)?;
    check_accessors::<T>(&vn, kind, None)?;
    check_cross(name, kind, None, &vn)
}

/// conversions that exist only in the `From` direction: &str, &String, Option<&str>, &[u8], borrowed Cow
fn check_borrowed(x: &X) -> R {
    match x {
        X::Str(s) | X::Cow(s, _) => {
            let k = Kind::S(K::String);
            let v: Value = guard("into", || s.as_str().into())?;
            expect_desc(&v, k, Some(s), "into/&str", "Value::from(&str)")?;
            let v: Value = guard("into", || s.into())?;
            expect_desc(&v, k, Some(s), "into/&String", "Value::from(&String)")?;
            let v: Value = guard("into", || Some(s.as_str()).into())?;
            expect_desc(&v, k, Some(s), "some-into/&str", "Value::from(Some(&str))")?;
            let v: Value = guard("into", || Option::<&str>::None.into())?;
            expect_desc(&v, k, None, "none-variant/&str", "Value::from(None::<&str>)")?;
            let v: Value = guard("null", || <&str as Nullable>::null())?;
            expect_desc(&v, k, None, "none-variant/&str", "<&str as Nullable>::null()")?;
            let borrowed: Cow<'_, str> = Cow::Borrowed(s.as_str());
            let v: Value = guard("into", || borrowed.into())?;
            expect_desc(&v, k, Some(s), "into/Cow<str>", "Value::from(Cow::Borrowed)")?;
            match guard("try_from", || <Cow<'_, str> as ValueType>::try_from(v))? {
                Ok(c) if c.as_ref() == s.as_str() => Ok(()),
                Ok(c) => fail("roundtrip/Cow<str>", format!("{s:?} came back as {c:?}")),
                Err(_) => fail("roundtrip-err/Cow<str>", format!("{s:?} could not be extracted")),
            }
        }
        X::Bytes(b) => {
            let v: Value = guard("into", || b.as_slice().into())?;
            expect_desc(&v, Kind::S(K::Bytes), Some(&hex(b)), "into/&[u8]", "Value::from(&[u8])")
        }
        _ => Ok(()),
    }
}

struct Full<'a> {
    obs: &'a mut Obs,
    x: &'a X,
}
impl<'a> Full<'a> {
    fn account<T: Ty>(&mut self, t: &T) {
        self.obs.label(T::NAME);
        if let Some(class) = nt_class(self.x) {
            self.obs.label(format!("nontrivial/{class}"));
            self.obs.nontrivial(&(T::NAME, t.canon()));
        }
    }
}
impl<'a> Visit for Full<'a> {
    fn nullable<T: Ty + Nullable>(&mut self, t: T) -> R {
        check_core(&t)?;
        check_opt(&t)?;
        check_borrowed(self.x)?;
        self.account(&t);
        Ok(())
    }
    fn plain<T: Ty>(&mut self, t: T) -> R {
        check_core(&t)?;
        check_borrowed(self.x)?;
        self.account(&t);
        Ok(())
    }
}

pub fn check_x(x: &X, obs: &mut Obs) -> R {
    dispatch(x, &mut Full { obs, x })
}

// ------------------------------------------------------------------------------------------------
// the table: every (source type × plain/Some/None, target type × plain/Option)

#[derive(Clone, Copy, Debug, PartialEq, Eq, Hash, Serialize, Deserialize)]
pub enum Mode {
    Plain,
    Some,
    None,
}

#[derive(Clone, Debug, Serialize, Deserialize)]
pub struct Pair {
    /// the source value (for `Mode::None` only its type matters)
    pub src: X,
    pub mode: Mode,
    pub dst: String,
    pub opt: bool,
}

struct PairVisit<'a> {
    c: &'a Pair,
    obs: &'a mut Obs,
}
impl<'a> PairVisit<'a> {
    fn run(&mut self, name: &str, kind: Kind, canon: Option<String>, v: Value) -> R {
        let Some(t) = targets().iter().find(|t| t.name == self.c.dst) else { return discard("unknown target type") };
        if self.c.opt && t.opt.is_none() {
            return discard("target has no Option form");
        }
        judge(name, kind, canon.as_deref(), t, self.c.opt, &v)?;
        if t.kind != kind {
            self.obs.label("pair/mismatching");
            self.obs.nontrivial(&("pair", name, format!("{:?}", self.c.mode), &canon, t.name, self.c.opt));
        } else if canon.is_none() {
            self.obs.label("pair/null-same-variant");
            self.obs.nontrivial(&("pair", name, "null", t.name, self.c.opt));
        } else {
            self.obs.label("pair/same-variant");
        }
        Ok(())
    }
}
impl<'a> Visit for PairVisit<'a> {
    fn nullable<T: Ty + Nullable>(&mut self, x: T) -> R {
        let (v, canon): (Value, Option<String>) = match self.c.mode {
            Mode::Plain => (guard("into", || x.clone().into())?, Some(x.canon())),
            Mode::Some => (guard("into", || Some(x.clone()).into())?, Some(x.canon())),
            Mode::None => (guard("into", || Option::<T>::None.into())?, None),
        };
        self.run(T::NAME, T::kind(), canon, v)
    }
    fn plain<T: Ty>(&mut self, x: T) -> R {
        if self.c.mode != Mode::Plain {
            return discard("type has no Option conversion");
        }
        let v: Value = guard("into", || x.clone().into())?;
        self.run(T::NAME, T::kind(), Some(x.canon()), v)
    }
}

pub fn check_pair(c: &Pair, obs: &mut Obs) -> R {
    dispatch(&c.src, &mut PairVisit { c, obs })
}

/// sources of the table: per scalar type up to three corner values, per array type the empty, a
/// one-element and a two-element array; each as plain and as Some, plus one None per type
fn table_sources() -> Vec<(X, Mode)> {
    let mut v = vec![];
    let mut push = |xs: Vec<X>, nullable: bool| {
        for (i, x) in xs.into_iter().enumerate() {
            v.push((x.clone(), Mode::Plain));
            if nullable {
                v.push((x.clone(), Mode::Some));
                if i == 0 {
                    v.push((x, Mode::None));
                }
            }
        }
    };
    for t in SCALAR_TAGS {
        push(boundaries(t).into_iter().take(3).collect(), t != Tag::Cow);
    }
    for t in ARRAY_TAGS {
        let b = boundaries(t);
        push(vec![X::Arr(t, vec![]), X::Arr(t, vec![b[0].clone()]), X::Arr(t, vec![b[1].clone(), b[0].clone()])], true);
    }
    v
}

fn table_probes() -> Vec<(&'static str, bool)> {
    let mut v = vec![];
    for t in targets() {
        v.push((t.name, false));
        if t.opt.is_some() {
            v.push((t.name, true));
        }
    }
    v
}

// ------------------------------------------------------------------------------------------------

fn nth_small(i: u64) -> X {
    match i {
        0..=1 => X::Bool(i == 1),
        2..=257 => X::I8((i - 2) as u8 as i8),
        258..=513 => X::U8((i - 258) as u8),
        514..=66_049 => X::I16((i - 514) as u16 as i16),
        _ => X::U16((i - 66_050) as u16),
    }
}
const SMALL_TOTAL: u64 = 2 + 256 + 256 + 65_536 + 65_536;
/// number of Unicode scalar values
const CHARS_TOTAL: u64 = 0x11_0000 - 0x800;
fn nth_char(j: u64) -> X {
    X::Char(if j < 0xd800 { j as u32 } else { j as u32 + 0x800 })
}

fn corner_cases() -> Vec<X> {
    let mut v = vec![];
    for t in SCALAR_TAGS {
        v.extend(boundaries(t));
    }
    for t in ARRAY_TAGS {
        let b = boundaries(t);
        v.push(X::Arr(t, vec![]));
        v.push(X::Arr(t, b.clone()));
        v.push(X::Arr(t, vec![b[0].clone(); 3]));
    }
    v
}

pub fn run(ctx: &mut Ctx) {
    ctx.rule = "A single-value case is non-trivial when the value is a boundary of its type (MIN/MAX/0/-1, ±0, ±inf, subnormal, \
extreme float, first/last representable date or offset, all-zero/all-one 128-bit value, network prefix 0/full), a NaN, a non-BMP \
char or a string containing one, or empty (string, bytes, array, vector, JSON null/[]/{}), arrays count by their elements; distinct \
by (Rust type, canonical bits/text). A table case is non-trivial when source and target variants differ, or a NULL is extracted; \
distinct by (source type, mode, value, target, optional). A tuple case is non-trivial when an element is non-trivial or an absent \
optional; distinct by (pattern, elements)."
        .into();
    ctx.assumptions = vec![
        "T's own variant = the Value variant whose payload type is T in the enum definition (for Vec<E>: Array tagged with E's ArrayType)".into(),
        "\"returns x\" is judged on canonical forms that include what the type's own == ignores: float bits, Decimal scale and sign, \
BigDecimal digits and exponent, the UTC offset of DateTime<FixedOffset>/OffsetDateTime".into(),
        "extraction as another Rust type of the SAME variant (String/Cow<str>, Uuid/uuid::fmt::*) may succeed; it must then show the same value".into(),
        "from_value_tuple is documented (panic messages) to reject a value tuple of another arity; a panic is the expected refusal".into(),
    ];
    ctx.domain_restrictions = vec![
        "arrays holding a NULL or foreign element cannot be produced by From<Vec<T>>; they are built by hand only to check that extracting them as Vec<T> fails".into(),
        "DateTime<Local> is kept one year inside chrono's range (local-offset lookup is chrono's, not sea-query's); \
OffsetDateTime two days inside time's range so that its UTC instant exists".into(),
        "typed tuples use 5 fixed type layouts (all-i64, all-String, all-Option<i32>, two heterogeneous lists incl. Option, array, \
uuid, chrono, time, decimal, json) plus tuples of arbitrary Values for into_value_tuple".into(),
        "pgvector::Vector has no array form (array_type is unimplemented by design) and Cow<str> no Option form (no Nullable impl)".into(),
    ];

    // 1. bool, i8, u8, i16, u16 exhaustively (full oracle incl. all target types)
    ctx.run_indexed("exhaustive-8-16-bit", SMALL_TOTAL, &nth_small, &check_x);
    // 2. char: every 17th scalar value (quick) / every scalar value (thorough)
    let stride = ctx.tier.pick(17u64, 1u64);
    let n_chars = (CHARS_TOTAL + stride - 1) / stride;
    ctx.run_indexed("chars", n_chars, &|i| nth_char(i * stride), &check_x);
    if stride != 1 {
        if let Some(p) = ctx.parts.last_mut() {
            p.exhaustive = false;
        }
    }
    // 3. corner values of every type
    let corners = corner_cases();
    ctx.run_list("corners", &corners, &check_x);
    // 4. the full (source × mode, target × optional) table
    let sources = table_sources();
    let probes = table_probes();
    let total = (sources.len() * probes.len()) as u64;
    ctx.run_indexed(
        "cross-table",
        total,
        &|i| {
            let (s, p) = ((i as usize) / probes.len(), (i as usize) % probes.len());
            Pair { src: sources[s].0.clone(), mode: sources[s].1, dst: probes[p].0.to_string(), opt: probes[p].1 }
        },
        &check_pair,
    );
    // 5. random values of every type
    let n = ctx.tier.pick(240_000u64, 6_000_000u64);
    ctx.run_proptest("random-values", n, &any_x, &check_x);
    // 6. tuples
    let fixed = tuples::fixed_cases();
    ctx.run_list("tuples-fixed", &fixed, &tuples::check);
    let n = ctx.tier.pick(120_000u64, 3_000_000u64);
    ctx.run_proptest("tuples-random", n, &tuples::strategy, &tuples::check);

    ctx.extra.insert("target_types".into(), serde_json::json!(targets().len()));
    ctx.extra.insert("table_sources".into(), serde_json::json!(sources.len()));
    ctx.extra.insert("table_probes".into(), serde_json::json!(probes.len()));
    ctx.extra.insert("char_stride".into(), serde_json::json!(stride));
}

pub fn replay(part: &str, case: &J, obs: &mut Obs) -> R {
    if part == "cross-table" {
        let c: Pair = from_case(case)?;
        check_pair(&c, obs)
    } else if part.starts_with("tuples") {
        let c: tuples::TupleCase = from_case(case)?;
        tuples::check(&c, obs)
    } else {
        let x: X = from_case(case)?;
        check_x(&x, obs)
    }
}
