//! C16 — the SQL tokenizer is lossless and always terminates.
//!
//! Oracle: (1) driving `Tokenizer::next()` by hand, every call that yields a token advances the
//! public cursor `p` and yields a non-empty token, at most one token per input character;
//! (2) concatenating the tokens reproduces the input; (3) for inputs *constructed* from segments
//! the expected token boundaries of quoted segments are known by construction, never by
//! re-tokenising. A watchdog turns a hang inside a single `next()` call into a confirmed
//! violation (the input is re-run in a fresh thread before it is reported).

use crate::runner::*;
use crate::util::*;
use proptest::prelude::*;
use sea_query::{Token, Tokenizer};
use serde::{Deserialize, Serialize};
use serde_json::Value as J;
use std::sync::atomic::{AtomicU64, Ordering};
use std::sync::{Arc, Mutex};

#[derive(Serialize, Deserialize, Clone, Debug, PartialEq, Eq, Hash)]
pub enum Piece {
    Ch(char),
    Doubled,
    Esc(char),
}

#[derive(Serialize, Deserialize, Clone, Debug, PartialEq, Eq, Hash)]
pub enum Seg {
    Plain(String),
    Quoted { delim: char, body: Vec<Piece> },
}

#[derive(Serialize, Deserialize, Clone, Debug, PartialEq, Eq, Hash)]
pub enum Case {
    Raw(String),
    Segs(Vec<Seg>),
}

fn close_of(d: char) -> char {
    if d == '[' {
        ']'
    } else {
        d
    }
}

/// Normalise a generated segment list into the sound domain (construction, not rejection).
pub fn normalise(segs: Vec<Seg>) -> Vec<Seg> {
    let mut out: Vec<Seg> = vec![];
    for s in segs {
        match s {
            Seg::Plain(p) => {
                let p: String = p.chars().filter(|c| !matches!(c, '\'' | '"' | '`' | '[' | '\\')).collect();
                if p.is_empty() {
                    continue;
                }
                if let Some(Seg::Plain(prev)) = out.last_mut() {
                    prev.push_str(&p);
                } else {
                    out.push(Seg::Plain(p));
                }
            }
            Seg::Quoted { delim, body } => {
                let delim = if matches!(delim, '\'' | '"' | '`' | '[') { delim } else { '\'' };
                let close = close_of(delim);
                let body: Vec<Piece> = body
                    .into_iter()
                    .filter_map(|p| match p {
                        Piece::Ch(c) if c == close || c == '\\' => Some(Piece::Ch('q')),
                        Piece::Doubled if delim == '[' => None,
                        p => Some(p),
                    })
                    .collect();
                // a quoted segment directly after one closed by the same character would read as a doubled delimiter
                if let Some(Seg::Quoted { delim: pd, .. }) = out.last() {
                    if close_of(*pd) == delim {
                        out.push(Seg::Plain(" ".into()));
                    }
                }
                out.push(Seg::Quoted { delim, body });
            }
        }
    }
    out
}

pub fn render_segs(segs: &[Seg]) -> (String, Vec<(usize, usize)>) {
    let mut s = String::new();
    let mut n = 0usize;
    let mut spans = vec![];
    for seg in segs {
        match seg {
            Seg::Plain(p) => {
                s.push_str(p);
                n += p.chars().count();
            }
            Seg::Quoted { delim, body } => {
                let start = n;
                let close = close_of(*delim);
                s.push(*delim);
                n += 1;
                for p in body {
                    match p {
                        Piece::Ch(c) => {
                            s.push(*c);
                            n += 1;
                        }
                        Piece::Doubled => {
                            s.push(close);
                            s.push(close);
                            n += 2;
                        }
                        Piece::Esc(c) => {
                            s.push('\\');
                            s.push(*c);
                            n += 2;
                        }
                    }
                }
                s.push(close);
                n += 1;
                spans.push((start, n));
            }
        }
    }
    (s, spans)
}

thread_local! {
    static SLOT: std::cell::Cell<usize> = const { std::cell::Cell::new(usize::MAX) };
}
static NEXT_SLOT: AtomicU64 = AtomicU64::new(0);
const SLOTS: usize = 64;
struct Beat {
    counter: Vec<AtomicU64>,
    current: Vec<Mutex<Option<String>>>,
}
static BEAT: std::sync::OnceLock<Arc<Beat>> = std::sync::OnceLock::new();

fn beat() -> &'static Arc<Beat> {
    BEAT.get_or_init(|| {
        Arc::new(Beat {
            counter: (0..SLOTS).map(|_| AtomicU64::new(0)).collect(),
            current: (0..SLOTS).map(|_| Mutex::new(None)).collect(),
        })
    })
}

fn my_slot() -> usize {
    SLOT.with(|s| {
        if s.get() == usize::MAX {
            s.set((NEXT_SLOT.fetch_add(1, Ordering::SeqCst) as usize) % SLOTS);
        }
        s.get()
    })
}

/// tokenise under the step bound; returns the tokens with their char spans
fn tokenise(input: &str) -> Result<Vec<(Token, usize, usize)>, Stop> {
    let nchars = input.chars().count();
    let mut t = Tokenizer::new(input);
    let mut out = vec![];
    let mut steps = 0usize;
    loop {
        let before = t.p;
        let tok = t.next();
        steps += 1;
        match tok {
            None => break,
            Some(tok) => {
                let len = tok.as_str().chars().count();
                if len == 0 {
                    return fail("empty-token", format!("input {input:?}: empty token at char {before}"));
                }
                if t.p <= before {
                    return fail("no-progress", format!("input {input:?}: next() returned {tok:?} without advancing"));
                }
                out.push((tok, before, before + len));
            }
        }
        if steps > nchars + 1 {
            return fail("too-many-tokens", format!("input {input:?}: more than {} tokens", nchars));
        }
    }
    Ok(out)
}

pub fn check_input(input: &str, spans: &[(usize, usize)], obs: &mut Obs) -> R {
    let b = beat();
    let slot = my_slot();
    *b.current[slot].lock().unwrap() = Some(input.to_string());
    b.counter[slot].fetch_add(1, Ordering::SeqCst);
    let toks = tokenise(input);
    *b.current[slot].lock().unwrap() = None;
    b.counter[slot].fetch_add(1, Ordering::SeqCst);
    let toks = toks?;
    let concat: String = toks.iter().map(|(t, _, _)| t.to_string()).collect();
    if concat != input {
        return fail("lossy", format!("input {input:?}: tokens concatenate to {concat:?}"));
    }
    // Display and as_str agree (both are used by callers to re-emit text)
    for (t, a, b2) in &toks {
        if t.to_string() != t.as_str() {
            return fail("display-mismatch", format!("token {t:?}"));
        }
        if b2 <= a {
            return fail("empty-token", format!("input {input:?}"));
        }
    }
    for (start, end) in spans {
        match toks.iter().find(|(_, a, _)| a == start) {
            Some((Token::Quoted(q), _, e)) if e == end => {
                let _ = q;
            }
            Some((t, _, e)) => {
                return fail(
                    "quoted-segment-split",
                    format!("input {input:?}: quoted segment chars {start}..{end} starts token {t:?} ending at {e}"),
                )
            }
            None => {
                return fail(
                    "quoted-segment-split",
                    format!("input {input:?}: no token starts at quoted segment {start}..{end}: {toks:?}"),
                )
            }
        }
        // nothing from inside the segment may surface as punctuation
        for (t, a, _) in &toks {
            if a > start && a < end {
                return fail("mark-inside-quotes", format!("input {input:?}: token {t:?} starts inside quoted segment {start}..{end}"));
            }
        }
    }
    let has_delim = input.chars().any(|c| matches!(c, '\'' | '"' | '`' | '[' | ']' | '\\'));
    if has_delim {
        obs.nontrivial(input);
        obs.label("has-delimiter-or-escape");
    }
    if !spans.is_empty() {
        obs.label("constructed-quoted-segments");
        if input.contains('?') || input.contains('$') {
            obs.label("mark-in-input");
        }
    }
    obs.note(format!("{} tokens", toks.len()));
    Ok(())
}

pub fn check(c: &Case, obs: &mut Obs) -> R {
    match c {
        Case::Raw(s) => check_input(s, &[], obs),
        Case::Segs(segs) => {
            let segs = normalise(segs.clone());
            let (s, spans) = render_segs(&segs);
            check_input(&s, &spans, obs)
        }
    }
}

const ALPHABET: [&str; 16] = ["a", "1", "_", "$", " ", "\n", "'", "\"", "`", "[", "]", "\\", "?", ".", "é", "\u{a0}"];

fn piece() -> impl Strategy<Value = Piece> {
    prop_oneof![
        4 => proptest::sample::select(vec!['a', '?', '$', '1', ' ', '\'', '"', '`', '[', ']', 'é', '%', '\n']).prop_map(Piece::Ch),
        1 => nasty_char().prop_map(Piece::Ch),
        2 => Just(Piece::Doubled),
        2 => proptest::sample::select(vec!['\'', '"', '`', ']', '\\', 'n', '?', 'a']).prop_map(Piece::Esc),
    ]
}

fn seg() -> impl Strategy<Value = Seg> {
    prop_oneof![
        2 => "[a-z0-9_$ ?.,()=<>%\\]\\-]{0,6}".prop_map(Seg::Plain),
        3 => (proptest::sample::select(vec!['\'', '"', '`', '[']), proptest::collection::vec(piece(), 0..6))
            .prop_map(|(delim, body)| Seg::Quoted { delim, body }),
    ]
}

pub fn run(ctx: &mut Ctx) {
    ctx.rule = "inputs: all strings over the 16-symbol alphabet {a 1 _ $ space LF ' \" ` [ ] \\ ? . é NBSP} up to length L (exhaustive), every Unicode scalar value between words and inside a quoted segment (exhaustive), \
random Unicode strings <= 200 chars, and strings constructed from plain and quoted segments (each delimiter; doubled and backslash-escaped \
delimiters and placeholder marks inside). Non-trivial = the input contains a quote delimiter, bracket or backslash; distinct by input text."
        .into();
    ctx.assumptions.push("Tokenizer::p is the cursor into Tokenizer::chars (public fields), used to observe progress".into());
    ctx.assumptions.push("a hang inside one next() call is detected by a 20 s watchdog and confirmed by a second 20 s run in a fresh thread".into());
    start_watchdog(ctx);
    let max_len = ctx.tier.pick(4, 5);
    let total = count_strings(16, max_len);
    ctx.run_indexed("alphabet", total, &|i| Case::Raw(nth_string(&ALPHABET, i)), &check);
    // every Unicode scalar value, alone between two words and inside a quoted segment (exhaustive over code points)
    ctx.run_indexed(
        "all-chars",
        0x110000 * 2,
        &|i| {
            let ch = char::from_u32((i / 2) as u32).unwrap_or('\u{fffd}');
            if i % 2 == 0 {
                Case::Raw(format!("a{ch}b {ch}"))
            } else {
                Case::Segs(vec![Seg::Plain("x ".into()), Seg::Quoted { delim: '\'', body: vec![Piece::Ch(ch), Piece::Ch('?')] }, Seg::Plain(" y".into())])
            }
        },
        &check,
    );
    if let Some(p) = ctx.parts.last_mut() {
        p.exhaustive = true;
    }
    // every body length and tail length up to a bound for each delimiter (block-wise scanners): a quoted token must end at its own
    // closing delimiter however long the text before and after it is
    let max_body: u64 = ctx.tier.pick(160, 700);
    const DELIMS: [char; 4] = ['\'', '"', '`', '['];
    ctx.run_indexed(
        "lengths",
        (max_body + 1) * 4 * 3,
        &|i| {
            let delim = DELIMS[(i % 4) as usize];
            let shape = (i / 4) % 3;
            let len = (i / 12) as usize;
            let body: Vec<Piece> = (0..len).map(|k| if shape == 1 && k % 5 == 4 { Piece::Esc(if delim == '[' { ']' } else { delim }) } else { Piece::Ch(if k % 3 == 0 { 'é' } else { 'a' }) }).collect();
            let tail = if shape == 2 { " = ? AND deleted = 0 AND name <> ?".repeat(1 + len % 3) } else { " = ?".to_string() };
            Case::Segs(vec![Seg::Plain("x".repeat(len % 19)), Seg::Plain(" ".into()), Seg::Quoted { delim, body }, Seg::Plain(tail), Seg::Quoted { delim: '\'', body: vec![Piece::Ch('?')] }])
        },
        &check,
    );
    let n = ctx.tier.pick(60_000, 2_000_000);
    ctx.run_proptest("random-unicode", n, &|| nasty_string(200).prop_map(Case::Raw), &check);
    let n = ctx.tier.pick(60_000, 2_000_000);
    ctx.run_proptest("segments", n, &|| proptest::collection::vec(seg(), 0..8).prop_map(Case::Segs), &check);
    if let Some(p) = ctx.parts.first_mut() {
        p.exhaustive = true;
    }
    ctx.extra.insert("alphabet_max_len".into(), serde_json::json!(max_len));
}

pub fn replay(_part: &str, case: &J, obs: &mut Obs) -> R {
    let c: Case = from_case(case)?;
    // a committed hang reproducer must not hang the replay: run it under a 20 s budget
    let (tx, rx) = std::sync::mpsc::channel();
    let c2 = c.clone();
    std::thread::spawn(move || {
        let mut o = Obs::default();
        let r = std::panic::catch_unwind(std::panic::AssertUnwindSafe(|| check(&c2, &mut o)));
        let _ = tx.send(r.unwrap_or_else(|p| fail("panic", panic_message(p))));
    });
    match rx.recv_timeout(std::time::Duration::from_secs(20)) {
        Ok(r) => {
            obs.label("replayed");
            r
        }
        Err(_) => fail("hang", "tokenizer did not terminate within 20 s"),
    }
}

fn start_watchdog(ctx: &Ctx) {
    let b = beat().clone();
    let root = ctx.root.clone();
    let tier = ctx.tier;
    let seed = ctx.seed;
    std::thread::spawn(move || {
        let mut last: Vec<(u64, std::time::Instant)> = (0..SLOTS).map(|_| (0, std::time::Instant::now())).collect();
        loop {
            std::thread::sleep(std::time::Duration::from_millis(500));
            for s in 0..SLOTS {
                let c = b.counter[s].load(Ordering::SeqCst);
                if c != last[s].0 {
                    last[s] = (c, std::time::Instant::now());
                    continue;
                }
                if c % 2 == 1 && last[s].1.elapsed().as_secs() >= 20 {
                    let input = b.current[s].lock().unwrap().clone();
                    let Some(input) = input else { continue };
                    // confirm in a fresh thread
                    let (tx, rx) = std::sync::mpsc::channel();
                    let inp = input.clone();
                    std::thread::spawn(move || {
                        let _ = std::panic::catch_unwind(|| Tokenizer::new(&inp).iter().count());
                        let _ = tx.send(());
                    });
                    if rx.recv_timeout(std::time::Duration::from_secs(20)).is_ok() {
                        println!("INCONCLUSIVE: watchdog fired for {input:?} but the input terminates when re-run");
                        std::process::exit(2);
                    }
                    let body = serde_json::json!({"property": "C16", "part": "hang", "signature": "hang",
                        "detail": "tokenizer did not terminate within 20 s (twice)", "case": Case::Raw(input.clone())});
                    let rel = format!("replays/C16-hang-{:016x}.json", fingerprint(&input));
                    let _ = std::fs::create_dir_all(root.join("replays"));
                    let _ = std::fs::write(root.join(&rel), serde_json::to_string_pretty(&body).unwrap());
                    let ev = serde_json::json!({"property_id": "C16", "tier": tier.name(), "seed": seed, "level": "exploration",
                        "coverage": {"evaluations": 1, "distinct_nontrivial": 0, "rule": "aborted: tokenizer hang", "samples": [input]},
                        "wall_s": 40.0, "violations": 1});
                    let _ = std::fs::create_dir_all(root.join("evidence"));
                    let _ = std::fs::write(root.join("evidence/C16.json"), serde_json::to_string_pretty(&ev).unwrap());
                    println!("VIOLATION property=C16 replay={}", root.join(&rel).display());
                    std::process::exit(1);
                }
            }
        }
    });
}
