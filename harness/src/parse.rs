//! Grammar-faithful expression parsers for the three dialects (oracle of C05, C06, C08).
//!
//! * MySQL follows the layering of sql_yacc.yy: expr > bool_pri > predicate > bit_expr > simple_expr
//!   (the layering, not just the precedence table, decides which operand forms are legal).
//! * Postgres follows gram.y's a_expr / b_expr with its %left/%nonassoc precedence declarations.
//! * SQLite follows parse.y's precedence declarations (a single `expr` nonterminal).
//! The result is a neutral tree `PT` in which parentheses have disappeared.
//! Where I cannot state the engine's behaviour with certainty the parser returns `Undecided`.

use crate::lex::{Tok, Token};
use crate::util::Dialect;
use serde::{Deserialize, Serialize};

#[derive(Clone, Debug, PartialEq, Eq, Hash, Serialize, Deserialize)]
pub enum PT {
    /// dotted identifier chain, decoded (quoted or bare)
    Id(Vec<String>),
    /// `*` or `t.*`
    Star(Vec<String>),
    Num(String),
    Str(String),
    Bytes(Vec<u8>),
    Param(Option<u32>),
    /// NULL TRUE FALSE DEFAULT CURRENT_TIMESTAMP ... (upper-cased)
    Kw(String),
    Un(String, Box<PT>),
    Bin(String, Box<PT>, Box<PT>),
    Between(bool, Box<PT>, Box<PT>, Box<PT>),
    /// operator (LIKE, NOT LIKE, ILIKE, GLOB, ...), subject, pattern, escape
    Like(String, Box<PT>, Box<PT>, Option<Box<PT>>),
    In(bool, Box<PT>, Vec<PT>),
    InSub(bool, Box<PT>, Box<PT>),
    /// name (upper-cased), args, distinct flag per arg
    Func(String, Vec<PT>, Vec<bool>),
    Cast(Box<PT>, String),
    Case(Vec<(PT, PT)>, Option<Box<PT>>),
    Tuple(Vec<PT>),
    /// optional EXISTS/ANY/SOME/ALL + canonical token text of the subquery
    Sub(Option<String>, String),
    Array(Vec<PT>),
}

#[derive(Clone, Debug, PartialEq, Eq)]
pub enum PErr {
    /// the text is not derivable from the dialect's grammar (as transcribed)
    Syntax { at: usize, msg: String },
    /// the transcription is not certain here
    Undecided(String),
}

pub type PRes<T> = Result<T, PErr>;

pub struct P<'a> {
    pub d: Dialect,
    pub t: &'a [Token],
    pub i: usize,
}

fn syn<T>(at: usize, msg: impl Into<String>) -> PRes<T> {
    Err(PErr::Syntax { at, msg: msg.into() })
}

pub const RESERVED_STOP: &[&str] = &[
    "FROM", "WHERE", "GROUP", "HAVING", "ORDER", "LIMIT", "OFFSET", "UNION", "INTERSECT", "EXCEPT", "AS", "THEN", "ELSE", "END", "WHEN",
    "ASC", "DESC", "NULLS", "FOR", "WINDOW", "ON", "JOIN", "INNER", "LEFT", "RIGHT", "FULL", "CROSS", "SET", "RETURNING", "VALUES", "USING",
    "SELECT", "INTO", "DO", "ROWS", "RANGE", "PRECEDING", "FOLLOWING", "OVER", "PARTITION", "LOCK", "SEARCH", "CYCLE", "INSERT", "UPDATE",
    "DELETE", "WITH", "USE", "IGNORE", "FORCE", "TABLESAMPLE", "LATERAL",
];

impl<'a> P<'a> {
    pub fn new(d: Dialect, t: &'a [Token]) -> Self {
        P { d, t, i: 0 }
    }
    pub fn peek(&self) -> Option<&'a Tok> {
        self.t.get(self.i).map(|t| &t.tok)
    }
    pub fn peek_at(&self, k: usize) -> Option<&'a Tok> {
        self.t.get(self.i + k).map(|t| &t.tok)
    }
    pub fn eof(&self) -> bool {
        self.i >= self.t.len()
    }
    pub fn is_word(&self, w: &str) -> bool {
        matches!(self.peek(), Some(t) if t.is_word(w))
    }
    pub fn is_word_at(&self, k: usize, w: &str) -> bool {
        matches!(self.peek_at(k), Some(t) if t.is_word(w))
    }
    pub fn is_op(&self, o: &str) -> bool {
        matches!(self.peek(), Some(t) if t.is_op(o))
    }
    pub fn eat_word(&mut self, w: &str) -> bool {
        if self.is_word(w) {
            self.i += 1;
            true
        } else {
            false
        }
    }
    pub fn eat(&mut self, t: &Tok) -> bool {
        if self.peek() == Some(t) {
            self.i += 1;
            true
        } else {
            false
        }
    }
    pub fn expect(&mut self, t: &Tok) -> PRes<()> {
        if self.eat(t) {
            Ok(())
        } else {
            syn(self.i, format!("expected {} but found {}", t.show(), self.peek().map(|x| x.show()).unwrap_or("end".into())))
        }
    }
    pub fn expect_word(&mut self, w: &str) -> PRes<()> {
        if self.eat_word(w) {
            Ok(())
        } else {
            syn(self.i, format!("expected {w} but found {}", self.peek().map(|x| x.show()).unwrap_or("end".into())))
        }
    }
    fn here<T>(&self, msg: impl Into<String>) -> PRes<T> {
        syn(self.i, format!("{} (at token {}: {})", msg.into(), self.i, self.peek().map(|x| x.show()).unwrap_or("end".into())))
    }

    /// canonical text of the balanced token group starting at the current `(`; cursor moves past `)`
    pub fn balanced_text(&mut self) -> PRes<String> {
        let start = self.i;
        self.expect(&Tok::LParen)?;
        let mut depth = 1;
        while depth > 0 {
            match self.peek() {
                None => return syn(start, "unbalanced parenthesis"),
                Some(Tok::LParen) => depth += 1,
                Some(Tok::RParen) => depth -= 1,
                _ => {}
            }
            self.i += 1;
        }
        // placeholders inside the text are written without their number (the numbering is C01's business)
        Ok(self.t[start + 1..self.i - 1].iter().map(|t| if matches!(t.tok, Tok::Param(_)) { "?".to_string() } else { t.tok.show() }).collect::<Vec<_>>().join(" "))
    }

    fn starts_subquery(&self) -> bool {
        self.peek() == Some(&Tok::LParen) && (self.is_word_at(1, "SELECT") || self.is_word_at(1, "WITH") || self.is_word_at(1, "VALUES"))
    }

    pub fn parse_expr(&mut self) -> PRes<PT> {
        match self.d {
            Dialect::Mysql => self.my_expr(),
            Dialect::Postgres => self.pg_expr(0, false),
            Dialect::Sqlite => self.sq_expr(0),
        }
    }

    // ------------------------------------------------------------------ shared primary expressions

    /// identifiers, literals, function calls, CASE, CAST, EXISTS, parenthesised forms
    fn primary(&mut self) -> PRes<PT> {
        let Some(tok) = self.peek() else { return self.here("expression expected") };
        match tok {
            Tok::Num(n) => {
                self.i += 1;
                Ok(PT::Num(n.clone()))
            }
            Tok::Str(s) => {
                self.i += 1;
                Ok(PT::Str(s.clone()))
            }
            Tok::Bytes(b) => {
                self.i += 1;
                Ok(PT::Bytes(b.clone()))
            }
            Tok::Param(p) => {
                self.i += 1;
                Ok(PT::Param(*p))
            }
            Tok::Op(o) if o == "*" => {
                self.i += 1;
                Ok(PT::Star(vec![]))
            }
            Tok::LParen => {
                if self.starts_subquery() {
                    let text = self.balanced_text()?;
                    return Ok(PT::Sub(None, text));
                }
                self.i += 1;
                let first = self.parse_expr()?;
                if self.eat(&Tok::Comma) {
                    let mut items = vec![first];
                    loop {
                        items.push(self.parse_expr()?);
                        if !self.eat(&Tok::Comma) {
                            break;
                        }
                    }
                    self.expect(&Tok::RParen)?;
                    Ok(PT::Tuple(items))
                } else {
                    self.expect(&Tok::RParen)?;
                    // a single parenthesised expression: the parenthesis disappears
                    Ok(first)
                }
            }
            Tok::Ident(_) => self.ident_chain(),
            Tok::Word(w) => {
                let up = w.to_ascii_uppercase();
                match up.as_str() {
                    "NULL" | "TRUE" | "FALSE" | "DEFAULT" | "CURRENT_DATE" | "CURRENT_TIME" | "CURRENT_TIMESTAMP" | "LOCALTIMESTAMP" | "UNKNOWN" => {
                        if self.peek_at(1) != Some(&Tok::LParen) {
                            self.i += 1;
                            return Ok(PT::Kw(up));
                        }
                        self.func_call()
                    }
                    "CASE" => self.case_expr(),
                    "CAST" => self.cast_expr(),
                    "EXISTS" | "ANY" | "SOME" | "ALL" if self.peek_at(1) == Some(&Tok::LParen) => {
                        self.i += 1;
                        if self.starts_subquery() {
                            let text = self.balanced_text()?;
                            Ok(PT::Sub(Some(up), text))
                        } else if up != "EXISTS" && self.d == Dialect::Postgres {
                            // ANY(array expression)
                            self.expect(&Tok::LParen)?;
                            let e = self.parse_expr()?;
                            self.expect(&Tok::RParen)?;
                            Ok(PT::Func(up, vec![e], vec![false]))
                        } else {
                            self.here(format!("{up} must be followed by a subquery"))
                        }
                    }
                    "ARRAY" if self.d == Dialect::Postgres && self.peek_at(1) == Some(&Tok::LBracket) => {
                        self.i += 2;
                        let mut items = vec![];
                        if !self.eat(&Tok::RBracket) {
                            loop {
                                items.push(self.parse_expr()?);
                                if !self.eat(&Tok::Comma) {
                                    break;
                                }
                            }
                            self.expect(&Tok::RBracket)?;
                        }
                        Ok(PT::Array(items))
                    }
                    "NOT" => self.here("NOT is not a primary expression"),
                    _ if RESERVED_STOP.contains(&up.as_str()) => self.here(format!("keyword {up} where an expression is expected")),
                    _ => {
                        if self.peek_at(1) == Some(&Tok::LParen) {
                            self.func_call()
                        } else {
                            self.ident_chain()
                        }
                    }
                }
            }
            other => self.here(format!("unexpected token {}", other.show())),
        }
    }

    fn ident_chain(&mut self) -> PRes<PT> {
        let mut parts = vec![];
        loop {
            match self.peek() {
                Some(Tok::Ident(s)) => {
                    parts.push(s.clone());
                    self.i += 1;
                }
                Some(Tok::Word(w)) => {
                    parts.push(w.clone());
                    self.i += 1;
                }
                Some(Tok::Op(o)) if o == "*" && !parts.is_empty() => {
                    self.i += 1;
                    return Ok(PT::Star(parts));
                }
                _ => return self.here("identifier expected"),
            }
            if self.peek() == Some(&Tok::Dot) {
                self.i += 1;
            } else {
                break;
            }
        }
        Ok(PT::Id(parts))
    }

    fn func_call(&mut self) -> PRes<PT> {
        let name = match self.peek() {
            Some(Tok::Word(w)) => w.to_ascii_uppercase(),
            _ => return self.here("function name expected"),
        };
        self.i += 1;
        self.expect(&Tok::LParen)?;
        let mut args = vec![];
        let mut distinct = vec![];
        if !self.eat(&Tok::RParen) {
            loop {
                let d = self.eat_word("DISTINCT");
                distinct.push(d);
                args.push(self.parse_expr()?);
                if !self.eat(&Tok::Comma) {
                    break;
                }
            }
            self.expect(&Tok::RParen)?;
        }
        Ok(PT::Func(name, args, distinct))
    }

    fn case_expr(&mut self) -> PRes<PT> {
        self.expect_word("CASE")?;
        let mut whens = vec![];
        while self.eat_word("WHEN") {
            let c = self.parse_expr()?;
            self.expect_word("THEN")?;
            let r = self.parse_expr()?;
            whens.push((c, r));
        }
        if whens.is_empty() {
            return self.here("CASE without WHEN");
        }
        let els = if self.eat_word("ELSE") { Some(Box::new(self.parse_expr()?)) } else { None };
        self.expect_word("END")?;
        Ok(PT::Case(whens, els))
    }

    fn cast_expr(&mut self) -> PRes<PT> {
        self.expect_word("CAST")?;
        self.expect(&Tok::LParen)?;
        let e = self.parse_expr()?;
        self.expect_word("AS")?;
        // type: tokens up to the closing parenthesis at depth 0
        let mut depth = 0;
        let mut ty = vec![];
        loop {
            match self.peek() {
                None => return self.here("unterminated CAST"),
                Some(Tok::LParen) => depth += 1,
                Some(Tok::RParen) => {
                    if depth == 0 {
                        break;
                    }
                    depth -= 1;
                }
                _ => {}
            }
            ty.push(self.peek().unwrap().show());
            self.i += 1;
        }
        if ty.is_empty() {
            return self.here("CAST without type");
        }
        self.expect(&Tok::RParen)?;
        Ok(PT::Cast(Box::new(e), ty.join(" ")))
    }

    /// `( expr, expr, ... )` or `( subquery )` after IN
    fn in_rhs(&mut self, not: bool, lhs: PT) -> PRes<PT> {
        if self.starts_subquery() {
            let text = self.balanced_text()?;
            return Ok(PT::InSub(not, Box::new(lhs), Box::new(PT::Sub(None, text))));
        }
        self.expect(&Tok::LParen)?;
        let mut items = vec![];
        loop {
            items.push(self.parse_expr()?);
            if !self.eat(&Tok::Comma) {
                break;
            }
        }
        self.expect(&Tok::RParen)?;
        Ok(PT::In(not, Box::new(lhs), items))
    }

    // ----------------------------------------------------------------------------------- MySQL

    fn my_expr(&mut self) -> PRes<PT> {
        let mut l = self.my_xor()?;
        while self.is_word("OR") || self.is_op("||") {
            self.i += 1;
            let r = self.my_xor()?;
            l = PT::Bin("OR".into(), Box::new(l), Box::new(r));
        }
        Ok(l)
    }
    fn my_xor(&mut self) -> PRes<PT> {
        let mut l = self.my_and()?;
        while self.is_word("XOR") {
            self.i += 1;
            let r = self.my_and()?;
            l = PT::Bin("XOR".into(), Box::new(l), Box::new(r));
        }
        Ok(l)
    }
    fn my_and(&mut self) -> PRes<PT> {
        let mut l = self.my_not()?;
        while self.is_word("AND") || self.is_op("&&") {
            self.i += 1;
            let r = self.my_not()?;
            l = PT::Bin("AND".into(), Box::new(l), Box::new(r));
        }
        Ok(l)
    }
    fn my_not(&mut self) -> PRes<PT> {
        if self.is_word("NOT") {
            self.i += 1;
            let e = self.my_not()?;
            return Ok(PT::Un("NOT".into(), Box::new(e)));
        }
        let b = self.my_bool_pri()?;
        // expr: bool_pri IS [NOT] TRUE|FALSE|UNKNOWN  (the result is an `expr`, not a bool_pri)
        if self.is_word("IS") {
            let save = self.i;
            self.i += 1;
            let not = self.eat_word("NOT");
            for kw in ["TRUE", "FALSE", "UNKNOWN"] {
                if self.eat_word(kw) {
                    let op = if not { "IS NOT" } else { "IS" };
                    return Ok(PT::Bin(op.into(), Box::new(b), Box::new(PT::Kw(kw.into()))));
                }
            }
            self.i = save;
            return self.here("MySQL: IS must be followed by [NOT] NULL / TRUE / FALSE / UNKNOWN");
        }
        Ok(b)
    }
    fn my_comp_op(&self) -> Option<&'static str> {
        match self.peek() {
            Some(Tok::Op(o)) => match o.as_str() {
                "=" => Some("="),
                "<=>" => Some("<=>"),
                ">=" => Some(">="),
                ">" => Some(">"),
                "<=" => Some("<="),
                "<" => Some("<"),
                "<>" | "!=" => Some("<>"),
                _ => None,
            },
            _ => None,
        }
    }
    fn my_bool_pri(&mut self) -> PRes<PT> {
        let mut l = self.my_predicate()?;
        loop {
            if self.is_word("IS") && (self.is_word_at(1, "NULL") || (self.is_word_at(1, "NOT") && self.is_word_at(2, "NULL"))) {
                self.i += 1;
                let not = self.eat_word("NOT");
                self.i += 1;
                l = PT::Bin(if not { "IS NOT" } else { "IS" }.into(), Box::new(l), Box::new(PT::Kw("NULL".into())));
            } else if let Some(op) = self.my_comp_op() {
                self.i += 1;
                let r = if (self.is_word("ANY") || self.is_word("ALL") || self.is_word("SOME")) && self.peek_at(1) == Some(&Tok::LParen) {
                    self.primary()?
                } else {
                    self.my_predicate()?
                };
                l = PT::Bin(op.into(), Box::new(l), Box::new(r));
            } else {
                break;
            }
        }
        Ok(l)
    }
    fn my_predicate(&mut self) -> PRes<PT> {
        let l = self.my_bit_expr(0)?;
        let save = self.i;
        let not = self.eat_word("NOT");
        let res = if self.eat_word("IN") {
            self.in_rhs(not, l)?
        } else if self.eat_word("BETWEEN") {
            let lo = self.my_bit_expr(0)?;
            self.expect_word("AND")?;
            let hi = self.my_predicate()?;
            PT::Between(not, Box::new(l), Box::new(lo), Box::new(hi))
        } else if self.is_word("LIKE") || self.is_word("REGEXP") || self.is_word("RLIKE") {
            let kw = match self.peek() {
                Some(Tok::Word(w)) => w.to_ascii_uppercase(),
                _ => unreachable!(),
            };
            self.i += 1;
            let op = if not { format!("NOT {kw}") } else { kw.clone() };
            if kw == "LIKE" {
                let pat = self.my_simple()?;
                let esc = if self.eat_word("ESCAPE") { Some(Box::new(self.my_simple()?)) } else { None };
                if self.my_bit_prec().is_some() {
                    // the pattern is a simple_expr in sql_yacc.yy; what a server does with `x LIKE a + 1` is not certain to me
                    return Err(PErr::Undecided("mysql: operator after a LIKE pattern".into()));
                }
                PT::Like(op, Box::new(l), Box::new(pat), esc)
            } else {
                let r = self.my_bit_expr(0)?;
                PT::Bin(op, Box::new(l), Box::new(r))
            }
        } else {
            if not {
                self.i = save;
            }
            return Ok(l);
        };
        // A second predicate operator directly after a predicate: the yacc grammar does not derive it
        // (left operands are bit_expr); real servers may differ in corner cases -> undecided, not an alarm.
        let chained = self.is_word("LIKE") || self.is_word("IN") || self.is_word("BETWEEN") || self.is_word("REGEXP")
            || (self.is_word("NOT") && (self.is_word_at(1, "LIKE") || self.is_word_at(1, "IN") || self.is_word_at(1, "BETWEEN") || self.is_word_at(1, "REGEXP")));
        if chained {
            return Err(PErr::Undecided("mysql: chained predicate operators".into()));
        }
        Ok(res)
    }
    fn my_bit_prec(&self) -> Option<(u8, String)> {
        match self.peek() {
            Some(Tok::Op(o)) => {
                let p = match o.as_str() {
                    "|" => 1,
                    "&" => 2,
                    "<<" | ">>" => 3,
                    "+" | "-" => 4,
                    "*" | "/" | "%" => 5,
                    "^" => 6,
                    _ => return None,
                };
                Some((p, o.clone()))
            }
            Some(Tok::Word(w)) if w.eq_ignore_ascii_case("DIV") => Some((5, "DIV".into())),
            Some(Tok::Word(w)) if w.eq_ignore_ascii_case("MOD") => Some((5, "MOD".into())),
            _ => None,
        }
    }
    fn my_bit_expr(&mut self, min: u8) -> PRes<PT> {
        let mut l = self.my_simple()?;
        while let Some((p, op)) = self.my_bit_prec() {
            if p < min {
                break;
            }
            self.i += 1;
            let r = self.my_bit_expr(p + 1)?;
            l = PT::Bin(op, Box::new(l), Box::new(r));
        }
        Ok(l)
    }
    fn my_simple(&mut self) -> PRes<PT> {
        match self.peek() {
            Some(Tok::Op(o)) if o == "-" || o == "~" || o == "!" || o == "+" => {
                let o = o.clone();
                self.i += 1;
                if o == "-" {
                    if let Some(Tok::Num(n)) = self.peek() {
                        self.i += 1;
                        return Ok(PT::Num(format!("-{n}")));
                    }
                }
                let e = self.my_simple()?;
                Ok(PT::Un(o, Box::new(e)))
            }
            Some(Tok::Word(w)) if w.eq_ignore_ascii_case("BINARY") && self.peek_at(1) != Some(&Tok::LParen) => {
                self.i += 1;
                let e = self.my_simple()?;
                Ok(PT::Un("BINARY".into(), Box::new(e)))
            }
            Some(Tok::Word(w)) if w.eq_ignore_ascii_case("ROW") && self.peek_at(1) == Some(&Tok::LParen) => {
                self.i += 1;
                self.primary()
            }
            _ => self.primary(),
        }
    }

    // -------------------------------------------------------------------------------- Postgres

    fn pg_infix(&self) -> Option<(u8, String, usize, bool)> {
        // (precedence, canonical operator, tokens consumed, nonassoc)
        match self.peek()? {
            Tok::Word(w) => {
                let up = w.to_ascii_uppercase();
                match up.as_str() {
                    "OR" => Some((1, up, 1, false)),
                    "AND" => Some((2, up, 1, false)),
                    "IS" | "ISNULL" | "NOTNULL" => Some((4, up, 1, true)),
                    "BETWEEN" | "IN" | "LIKE" | "ILIKE" | "SIMILAR" => Some((6, up, 1, true)),
                    "NOT" => {
                        let n = self.peek_at(1)?;
                        for k in ["BETWEEN", "IN", "LIKE", "ILIKE", "SIMILAR"] {
                            if n.is_word(k) {
                                return Some((6, format!("NOT {k}"), 2, true));
                            }
                        }
                        None
                    }
                    _ => None,
                }
            }
            Tok::Op(o) => match o.as_str() {
                "<" | ">" | "=" | "<=" | ">=" | "<>" | "!=" => Some((5, if o == "!=" { "<>".into() } else { o.clone() }, 1, true)),
                "+" | "-" => Some((9, o.clone(), 1, false)),
                "*" | "/" | "%" => Some((10, o.clone(), 1, false)),
                "^" => Some((11, o.clone(), 1, false)),
                "::" => Some((17, o.clone(), 1, false)),
                _ => Some((8, o.clone(), 1, false)),
            },
            _ => None,
        }
    }

    /// `b_expr` = true: restricted grammar used for the lower bound of BETWEEN
    fn pg_expr(&mut self, min: u8, b_expr: bool) -> PRes<PT> {
        let mut l = self.pg_prefix(b_expr)?;
        let mut last_nonassoc: Option<u8> = None;
        loop {
            let Some((p, op, ntok, nonassoc)) = self.pg_infix() else { break };
            if p < min {
                break;
            }
            if b_expr && matches!(p, 1 | 2 | 6) {
                if p == 2 {
                    break; // the AND of BETWEEN
                }
                return self.here(format!("Postgres: {op} is not allowed in the lower bound of BETWEEN (b_expr)"));
            }
            if nonassoc && last_nonassoc == Some(p) {
                return self.here(format!("Postgres: operator {op} is non-associative"));
            }
            let at = self.i;
            self.i += ntok;
            match op.as_str() {
                "IS" => {
                    let not = self.eat_word("NOT");
                    let mut done = false;
                    for kw in ["NULL", "TRUE", "FALSE", "UNKNOWN"] {
                        if self.eat_word(kw) {
                            l = PT::Bin(if not { "IS NOT" } else { "IS" }.into(), Box::new(l), Box::new(PT::Kw(kw.into())));
                            done = true;
                            break;
                        }
                    }
                    if !done {
                        if self.eat_word("DISTINCT") {
                            self.expect_word("FROM")?;
                            let r = self.pg_expr(5, b_expr)?;
                            l = PT::Bin(if not { "IS NOT DISTINCT FROM" } else { "IS DISTINCT FROM" }.into(), Box::new(l), Box::new(r));
                        } else {
                            self.i = at;
                            return self.here("Postgres: IS must be followed by [NOT] NULL / TRUE / FALSE / UNKNOWN / DISTINCT FROM");
                        }
                    }
                    if b_expr && !matches!(&l, PT::Bin(o, _, _) if o.contains("DISTINCT")) {
                        return syn(at, "Postgres: IS NULL is not allowed in b_expr");
                    }
                }
                "ISNULL" | "NOTNULL" => {
                    l = PT::Bin(if op == "ISNULL" { "IS" } else { "IS NOT" }.into(), Box::new(l), Box::new(PT::Kw("NULL".into())));
                }
                "BETWEEN" | "NOT BETWEEN" => {
                    self.eat_word("SYMMETRIC");
                    // b_expr is a nonterminal of its own: its operators (comparisons included) need no parentheses
                    let lo = self.pg_expr(0, true)?;
                    self.expect_word("AND")?;
                    let hi = self.pg_expr(7, false)?;
                    l = PT::Between(op.starts_with("NOT"), Box::new(l), Box::new(lo), Box::new(hi));
                }
                "IN" | "NOT IN" => {
                    l = self.in_rhs(op.starts_with("NOT"), l)?;
                }
                "LIKE" | "NOT LIKE" | "ILIKE" | "NOT ILIKE" | "SIMILAR" | "NOT SIMILAR" => {
                    if op.ends_with("SIMILAR") {
                        self.expect_word("TO")?;
                    }
                    let pat = self.pg_expr(7, false)?;
                    let esc = if self.eat_word("ESCAPE") { Some(Box::new(self.pg_expr(7, false)?)) } else { None };
                    l = PT::Like(op.clone(), Box::new(l), Box::new(pat), esc);
                }
                "::" => {
                    let ty = self.ident_chain()?;
                    let name = match ty {
                        PT::Id(p) => p.join("."),
                        _ => return syn(at, "type name expected"),
                    };
                    let mut name = name;
                    if self.peek() == Some(&Tok::LBracket) && self.peek_at(1) == Some(&Tok::RBracket) {
                        self.i += 2;
                        name.push_str("[]");
                    }
                    l = PT::Cast(Box::new(l), name);
                }
                _ => {
                    // binary operator; `op ANY/ALL/SOME (..)` takes the precedence of Op
                    let r = if (self.is_word("ANY") || self.is_word("ALL") || self.is_word("SOME")) && self.peek_at(1) == Some(&Tok::LParen) {
                        self.primary()?
                    } else {
                        self.pg_expr(p + 1, b_expr)?
                    };
                    l = PT::Bin(op.clone(), Box::new(l), Box::new(r));
                }
            }
            last_nonassoc = if nonassoc { Some(p) } else { None };
        }
        Ok(l)
    }

    fn pg_prefix(&mut self, b_expr: bool) -> PRes<PT> {
        match self.peek() {
            Some(Tok::Word(w)) if w.eq_ignore_ascii_case("NOT") => {
                if b_expr {
                    return self.here("Postgres: NOT is not allowed in b_expr");
                }
                self.i += 1;
                let e = self.pg_expr(3, false)?;
                Ok(PT::Un("NOT".into(), Box::new(e)))
            }
            Some(Tok::Op(o)) if o == "-" || o == "+" => {
                let o = o.clone();
                self.i += 1;
                if o == "-" {
                    if let Some(Tok::Num(n)) = self.peek() {
                        // the parser folds the sign into the constant only when nothing binds tighter; `::`
                        // would, but sea-query never writes it after a bare number
                        self.i += 1;
                        return Ok(PT::Num(format!("-{n}")));
                    }
                }
                let e = self.pg_expr(14, b_expr)?;
                Ok(PT::Un(o, Box::new(e)))
            }
            Some(Tok::Op(o)) if o != "*" => {
                // prefix operator (qual_Op a_expr %prec Op)
                let o = o.clone();
                self.i += 1;
                let e = self.pg_expr(9, b_expr)?;
                Ok(PT::Un(o, Box::new(e)))
            }
            _ => self.primary(),
        }
    }

    // ---------------------------------------------------------------------------------- SQLite

    fn sq_infix(&self) -> Option<(u8, String, usize)> {
        match self.peek()? {
            Tok::Word(w) => {
                let up = w.to_ascii_uppercase();
                match up.as_str() {
                    "OR" => Some((1, up, 1)),
                    "AND" => Some((2, up, 1)),
                    "IS" | "MATCH" | "LIKE" | "GLOB" | "REGEXP" | "BETWEEN" | "IN" | "ISNULL" | "NOTNULL" => Some((4, up, 1)),
                    "NOT" => {
                        let n = self.peek_at(1)?;
                        for k in ["MATCH", "LIKE", "GLOB", "REGEXP", "BETWEEN", "IN", "NULL"] {
                            if n.is_word(k) {
                                return Some((4, format!("NOT {k}"), 2));
                            }
                        }
                        None
                    }
                    "COLLATE" => Some((11, up, 1)),
                    _ => None,
                }
            }
            Tok::Op(o) => match o.as_str() {
                "=" | "==" | "<>" | "!=" => Some((4, if o == "==" { "=".into() } else if o == "!=" { "<>".into() } else { o.clone() }, 1)),
                ">" | "<=" | "<" | ">=" => Some((5, o.clone(), 1)),
                "&" | "|" | "<<" | ">>" => Some((7, o.clone(), 1)),
                "+" | "-" => Some((8, o.clone(), 1)),
                "*" | "/" | "%" => Some((9, o.clone(), 1)),
                "||" | "->" | "->>" => Some((10, o.clone(), 1)),
                _ => None,
            },
            _ => None,
        }
    }

    fn sq_expr(&mut self, min: u8) -> PRes<PT> {
        let mut l = self.sq_prefix()?;
        loop {
            let Some((p, op, ntok)) = self.sq_infix() else { break };
            if p < min {
                break;
            }
            let at = self.i;
            self.i += ntok;
            match op.as_str() {
                "IS" => {
                    let not = self.eat_word("NOT");
                    if self.eat_word("DISTINCT") {
                        self.expect_word("FROM")?;
                    }
                    let r = self.sq_expr(5)?;
                    l = PT::Bin(if not { "IS NOT" } else { "IS" }.into(), Box::new(l), Box::new(r));
                }
                "ISNULL" | "NOTNULL" | "NOT NULL" => {
                    l = PT::Bin(if op == "ISNULL" { "IS" } else { "IS NOT" }.into(), Box::new(l), Box::new(PT::Kw("NULL".into())));
                }
                "BETWEEN" | "NOT BETWEEN" => {
                    // the lower bound runs up to the AND; an OR inside it is not derivable
                    let lo = self.sq_expr(3)?;
                    if self.is_word("OR") {
                        return Err(PErr::Undecided("sqlite: OR inside an unparenthesised BETWEEN bound".into()));
                    }
                    self.expect_word("AND")?;
                    let hi = self.sq_expr(5)?;
                    l = PT::Between(op.starts_with("NOT"), Box::new(l), Box::new(lo), Box::new(hi));
                }
                "IN" | "NOT IN" => {
                    if self.peek() == Some(&Tok::LParen) && self.peek_at(1) == Some(&Tok::RParen) {
                        self.i += 2;
                        l = PT::In(op.starts_with("NOT"), Box::new(l), vec![]);
                    } else {
                        l = self.in_rhs(op.starts_with("NOT"), l)?;
                    }
                }
                "LIKE" | "NOT LIKE" | "GLOB" | "NOT GLOB" | "REGEXP" | "NOT REGEXP" | "MATCH" | "NOT MATCH" => {
                    let pat = self.sq_expr(5)?;
                    // ESCAPE (precedence 6, right) is absorbed by the pattern operand's loop only through this rule
                    let esc = if self.eat_word("ESCAPE") { Some(Box::new(self.sq_expr(5)?)) } else { None };
                    l = PT::Like(op.clone(), Box::new(l), Box::new(pat), esc);
                }
                "COLLATE" => {
                    let c = self.ident_chain()?;
                    l = PT::Bin("COLLATE".into(), Box::new(l), Box::new(c));
                }
                _ => {
                    let r = self.sq_expr(p + 1)?;
                    l = PT::Bin(op.clone(), Box::new(l), Box::new(r));
                }
            }
            let _ = at;
        }
        Ok(l)
    }

    fn sq_prefix(&mut self) -> PRes<PT> {
        match self.peek() {
            Some(Tok::Word(w)) if w.eq_ignore_ascii_case("NOT") => {
                self.i += 1;
                let e = self.sq_expr(3)?;
                Ok(PT::Un("NOT".into(), Box::new(e)))
            }
            Some(Tok::Op(o)) if o == "-" || o == "+" || o == "~" => {
                let o = o.clone();
                self.i += 1;
                if o == "-" {
                    if let Some(Tok::Num(n)) = self.peek() {
                        self.i += 1;
                        return Ok(PT::Num(format!("-{n}")));
                    }
                }
                let e = self.sq_expr(12)?;
                Ok(PT::Un(o, Box::new(e)))
            }
            _ => self.primary(),
        }
    }
}

/// Parse a complete expression token list; all tokens must be consumed.
pub fn parse_full_expr(d: Dialect, toks: &[Token]) -> PRes<PT> {
    if let Some(c) = toks.iter().find(|t| matches!(t.tok, Tok::Comment(_))) {
        return syn(0, format!("comment in expression: {}", c.tok.show()));
    }
    let mut p = P::new(d, toks);
    let e = p.parse_expr()?;
    if !p.eof() {
        return syn(p.i, format!("tokens left after the expression, starting with {}", p.peek().unwrap().show()));
    }
    Ok(e)
}

impl PT {
    /// compact rendering for messages
    pub fn show(&self) -> String {
        match self {
            PT::Id(p) => p.join("."),
            PT::Star(p) => {
                if p.is_empty() {
                    "*".into()
                } else {
                    format!("{}.*", p.join("."))
                }
            }
            PT::Num(n) => n.clone(),
            PT::Str(s) => format!("'{s}'"),
            PT::Bytes(b) => format!("x'{}'", b.iter().map(|x| format!("{x:02x}")).collect::<String>()),
            PT::Param(None) => "?".into(),
            PT::Param(Some(n)) => format!("${n}"),
            PT::Kw(k) => k.clone(),
            PT::Un(o, e) => format!("[{o} {}]", e.show()),
            PT::Bin(o, l, r) => format!("[{} {o} {}]", l.show(), r.show()),
            PT::Between(n, x, lo, hi) => format!("[{} {}BETWEEN {} AND {}]", x.show(), if *n { "NOT " } else { "" }, lo.show(), hi.show()),
            PT::Like(o, x, p, e) => format!("[{} {o} {}{}]", x.show(), p.show(), e.as_ref().map(|e| format!(" ESCAPE {}", e.show())).unwrap_or_default()),
            PT::In(n, x, l) => format!("[{} {}IN ({})]", x.show(), if *n { "NOT " } else { "" }, l.iter().map(|x| x.show()).collect::<Vec<_>>().join(", ")),
            PT::InSub(n, x, s) => format!("[{} {}IN {}]", x.show(), if *n { "NOT " } else { "" }, s.show()),
            PT::Func(n, a, d) => format!(
                "{n}({})",
                a.iter().zip(d.iter()).map(|(x, d)| format!("{}{}", if *d { "DISTINCT " } else { "" }, x.show())).collect::<Vec<_>>().join(", ")
            ),
            PT::Cast(e, t) => format!("CAST({} AS {t})", e.show()),
            PT::Case(w, e) => format!(
                "CASE{}{} END",
                w.iter().map(|(c, r)| format!(" WHEN {} THEN {}", c.show(), r.show())).collect::<String>(),
                e.as_ref().map(|e| format!(" ELSE {}", e.show())).unwrap_or_default()
            ),
            PT::Tuple(v) => format!("({})", v.iter().map(|x| x.show()).collect::<Vec<_>>().join(", ")),
            PT::Sub(o, t) => format!("{}<{t}>", o.clone().unwrap_or_default()),
            PT::Array(v) => format!("ARRAY[{}]", v.iter().map(|x| x.show()).collect::<Vec<_>>().join(", ")),
        }
    }
}
