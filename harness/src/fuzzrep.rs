//! Reporting from cargo-fuzz targets: a failing case is written as an ordinary replay file (so that
//! `./check <ID> --replay` reproduces it without libFuzzer) and the process panics so that libFuzzer records the input.
//! Known findings are tolerated in-target so that a campaign does not rediscover one crash forever.

use serde::Serialize;

pub fn report<C: Serialize>(prop: &str, part: &str, sig: &str, detail: &str, case: &C) {
    let root = std::path::PathBuf::from(std::env::var("SQV_ROOT").unwrap_or_else(|_| "/verif".to_string()));
    if crate::runner::load_known(&root, prop).iter().any(|k| k.key == sig) {
        return;
    }
    let body = serde_json::json!({"property": prop, "part": part, "signature": sig, "detail": detail, "case": case});
    let h = crate::runner::fingerprint(&(sig, body["case"].to_string()));
    let rel = root.join(format!("replays/{prop}-fuzz-{h:016x}.json"));
    let _ = std::fs::create_dir_all(root.join("replays"));
    let _ = std::fs::write(&rel, serde_json::to_string_pretty(&body).unwrap());
    println!("VIOLATION property={prop} replay={}", rel.display());
    panic!("{prop} violated: {sig}: {detail}");
}
