//! Independent model of which values a statement binds and in which reading order (oracle of C01):
//! a traversal of the *spec* in the order the dialect's grammar places the clauses. It shares no code
//! with sea-query's writers.

use crate::expr_spec::*;
use crate::stmt_spec::*;
use crate::util::Dialect;
use sea_query::Value;
use serde::{Deserialize, Serialize};

/// expected bound value (type matters: it is what the driver will receive)
#[derive(Clone, Debug, PartialEq, Eq, Hash, Serialize, Deserialize)]
pub enum PV {
    Int(i64),
    Text(String),
    Bool(bool),
    /// LIMIT / OFFSET (u64)
    U64(u64),
    /// window frame offsets (u32)
    U32(u32),
    /// the constants of the documented `IN ()` rewrite (i32)
    I32(i32),
    Other(String),
}

/// collector of expected parameters, each labelled with the clause it belongs to
#[derive(Default, Debug)]
pub struct Col {
    pub v: Vec<PV>,
    pub labels: Vec<&'static str>,
    pub clause: &'static str,
}

impl Col {
    pub fn push(&mut self, p: PV) {
        self.v.push(p);
        self.labels.push(self.clause);
    }
    fn extend_from(&mut self, o: &Col) {
        for p in &o.v {
            self.push(p.clone());
        }
    }
    fn at(&mut self, clause: &'static str) -> &mut Self {
        self.clause = clause;
        self
    }
}

pub fn pv_of_value(v: &Value) -> PV {
    match v {
        Value::BigInt(Some(i)) => PV::Int(*i),
        Value::String(Some(s)) => PV::Text((**s).clone()),
        Value::Bool(Some(b)) => PV::Bool(*b),
        Value::BigUnsigned(Some(u)) => PV::U64(*u),
        Value::Unsigned(Some(u)) => PV::U32(*u),
        Value::Int(Some(i)) => PV::I32(*i),
        other => PV::Other(format!("{other:?}")),
    }
}

pub fn expr_params(e: &E, out: &mut Col) {
    match e {
        E::Int(i) => out.push(PV::Int(*i)),
        E::Text(s) => out.push(PV::Text(s.clone())),
        E::Bool(b) => out.push(PV::Bool(*b)),
        E::LikePat { x, pat, .. } => {
            expr_params(x, out);
            out.push(PV::Text(pat.clone()));
        }
        E::In { not, x, list } => {
            if list.is_empty() {
                out.push(PV::I32(1));
                out.push(PV::I32(if *not { 1 } else { 2 }));
            } else {
                expr_params(x, out);
                for i in list {
                    expr_params(i, out);
                }
            }
        }
        // expression-level subqueries carry one bound value, read after the operand
        E::InSub { x, .. } | E::Quantified(x, _, _) => {
            expr_params(x, out);
            out.push(PV::I32(crate::expr_spec::SUB_BOUND));
        }
        E::Exists | E::ScalarSub => out.push(PV::I32(crate::expr_spec::SUB_BOUND)),
        // function constructors that add a bound value of their own in front of the argument
        E::Func(
            crate::expr_spec::F::PgToTsqueryCfg
            | crate::expr_spec::F::PgToTsvectorCfg
            | crate::expr_spec::F::PgPlaintoTsqueryCfg
            | crate::expr_spec::F::PgPhrasetoTsqueryCfg
            | crate::expr_spec::F::PgWebsearchToTsqueryCfg,
            args,
        ) => {
            out.push(PV::U32(crate::expr_spec::PG_REGCONFIG));
            for a in args {
                expr_params(a, out);
            }
        }
        E::Func(crate::expr_spec::F::PgDateTrunc, args) => {
            out.push(PV::Text("day".into()));
            for a in args {
                expr_params(a, out);
            }
        }
        E::InTuples(cols, rows) => {
            for c in cols {
                expr_params(c, out);
            }
            for (x, y) in rows {
                out.push(PV::Int(*x));
                out.push(PV::Int(*y));
            }
        }
        E::InTuplesN(cols, rows) => {
            for c in cols {
                expr_params(c, out);
            }
            for r in crate::expr_spec::rows_n(cols.len(), rows) {
                for x in r {
                    out.push(PV::Int(x));
                }
            }
        }
        other => {
            for c in other.children() {
                expr_params(c, out);
            }
        }
    }
}

fn order_params(o: &OrdSpec, d: Dialect, out: &mut Col) {
    let mut once = Col::default();
    expr_params(&o.e, &mut once);
    // MySQL emulates NULLS FIRST/LAST with `<expr> IS NULL ASC|DESC, ` in front: the expression is written once more
    if d == Dialect::Mysql && o.nulls.is_some() {
        out.extend_from(&once);
    }
    match &o.dir {
        // ORDER BY FIELD: `CASE WHEN <expr>=v1 THEN 0 WHEN <expr>=v2 ...`: the expression once per listed value (values inlined)
        Dir::Field(vals) => {
            for _ in vals {
                out.extend_from(&once);
            }
        }
        _ => out.extend_from(&once),
    }
}

fn frame_params(b: &FrameB, out: &mut Col) {
    match b {
        FrameB::Preceding(n) | FrameB::Following(n) => out.push(PV::U32(*n)),
        _ => {}
    }
}

fn window_params(w: &WinSpec, d: Dialect, out: &mut Col) {
    for p in &w.partition {
        expr_params(p, out);
    }
    for o in &w.order {
        order_params(o, d, out);
    }
    if let Some((_, start, end)) = &w.frame {
        frame_params(start, out);
        if let Some(e) = end {
            frame_params(e, out);
        }
    }
}

fn from_params(f: &FromSpec, d: Dialect, out: &mut Col) {
    match f {
        FromSpec::Sub(s, _) => select_params(s, d, out),
        FromSpec::Values(rows, _) => {
            for r in rows {
                for v in r {
                    out.push(PV::Int(*v));
                }
            }
        }
        _ => {}
    }
}

fn with_params(w: &Option<WithSpec>, d: Dialect, out: &mut Col) {
    if let Some(w) = w {
        for c in &w.ctes {
            select_params(&c.query, d, out);
        }
    }
}

pub fn select_params(s: &SelectSpec, d: Dialect, out: &mut Col) {
    with_params(&s.with, d, out);
    for it in &s.items {
        expr_params(&it.e, out.at("select-list"));
        if let Some(WinRef::Inline(w)) = &it.win {
            window_params(w, d, out.at("over-window"));
        }
    }
    for f in &s.from {
        from_params(f, d, out.at("from"));
    }
    for j in &s.joins {
        from_params(&j.src, d, out.at("join"));
        expr_params(&j.on, out.at("join-on"));
    }
    for w in &s.wheres {
        expr_params(w, out.at("where"));
    }
    for g in &s.groups {
        expr_params(g, out.at("group-by"));
    }
    for h in &s.havings {
        expr_params(h, out.at("having"));
    }
    if let Some(w) = &s.window {
        window_params(w, d, out.at("window-clause"));
    }
    for (_, u) in &s.unions {
        select_params(u, d, out.at("set-operation"));
    }
    for o in &s.orders {
        order_params(o, d, out.at("order-by"));
    }
    if let Some(l) = s.limit {
        out.at("limit").push(PV::U64(l));
    }
    if let Some(o) = s.offset {
        out.at("offset").push(PV::U64(o));
    }
}

fn returning_params(r: &Option<Returning>, d: Dialect, out: &mut Col) {
    if d == Dialect::Mysql {
        return; // MySQL has no RETURNING: the clause is not rendered
    }
    if let Some(Returning::Exprs(es)) = r {
        for e in es {
            expr_params(e, out.at("returning"));
        }
    }
}

pub fn stmt_params(s: &Stmt, d: Dialect) -> Col {
    let mut out = Col::default();
    match s {
        Stmt::Select(q) => select_params(q, d, &mut out),
        Stmt::Insert(i) => {
            with_params(&i.with, d, &mut out);
            match &i.source {
                InsertSource::Values(rows) => {
                    for r in rows {
                        for e in r {
                            expr_params(e, out.at("insert-values"));
                        }
                    }
                }
                InsertSource::Select(sel) => select_params(sel, d, &mut out),
                InsertSource::Default(_) => {}
            }
            if let Some(c) = &i.on_conflict {
                if d != Dialect::Mysql {
                    if let Some(w) = &c.target_where {
                        expr_params(w, out.at("conflict-target-where"));
                    }
                }
                if let ConflictAction::UpdateValues(vals) = &c.action {
                    for (_, e) in vals {
                        expr_params(e, out.at("conflict-update"));
                    }
                }
                if d != Dialect::Mysql {
                    if let Some(w) = &c.action_where {
                        expr_params(w, out.at("conflict-action-where"));
                    }
                }
            }
            returning_params(&i.returning, d, &mut out);
        }
        Stmt::Update(u) => {
            with_params(&u.with, d, &mut out);
            let mysql_join = d == Dialect::Mysql && !u.from.is_empty();
            if mysql_join {
                // UPDATE t JOIN u ON <conditions> SET ...
                for w in &u.wheres {
                    expr_params(w, out.at("update-join-on"));
                }
            }
            for (_, e) in &u.sets {
                expr_params(e, out.at("update-set"));
            }
            if !mysql_join {
                for w in &u.wheres {
                    expr_params(w, out.at("where"));
                }
            }
            // RETURNING precedes ORDER BY / LIMIT (the only engine with both, SQLite, requires it)
            returning_params(&u.returning, d, &mut out);
            for o in &u.orders {
                order_params(o, d, out.at("order-by"));
            }
            if let Some(l) = u.limit {
                out.at("limit").push(PV::U64(l));
            }
        }
        Stmt::Delete(x) => {
            with_params(&x.with, d, &mut out);
            for w in &x.wheres {
                expr_params(w, out.at("where"));
            }
            returning_params(&x.returning, d, &mut out);
            for o in &x.orders {
                order_params(o, d, out.at("order-by"));
            }
            if let Some(l) = x.limit {
                out.at("limit").push(PV::U64(l));
            }
        }
    }
    out
}

// --------------------------------------------------------------------------------- tagging

struct Tagger {
    k: i64,
    /// Some = substitute values of many types for the integer atoms instead of tagging (C02)
    subst: Option<Vec<VS>>,
}

impl Tagger {
    fn next(&mut self) -> i64 {
        self.k += 1;
        self.k
    }
    fn expr(&mut self, e: &E) -> E {
        if let Some(vs) = &self.subst {
            return match e {
                E::Int(_) | E::Text(_) if !vs.is_empty() => {
                    self.k += 1;
                    // every third value atom keeps its plain form
                    if self.k % 3 == 0 {
                        e.clone()
                    } else {
                        E::V(self.subst.as_ref().unwrap()[(self.k as usize) % self.subst.as_ref().unwrap().len()].clone())
                    }
                }
                other => other.map_children(&mut |_, c| self.expr(c)),
            };
        }
        match e {
            E::Int(_) => E::Int(1000 + self.next()),
            E::Text(_) => E::Text(format!("v{}", self.next())),
            E::LikePat { not, x, esc, .. } => {
                let x2 = self.expr(x);
                E::LikePat { not: *not, x: Box::new(x2), pat: format!("p{}%", self.next()), esc: *esc }
            }
            other => other.map_children(&mut |_, c| self.expr(c)),
        }
    }
    fn ord(&mut self, o: &mut OrdSpec) {
        o.e = self.expr(&o.e);
    }
    fn frame(&mut self, b: &mut FrameB) {
        match b {
            FrameB::Preceding(n) | FrameB::Following(n) if self.subst.is_none() => *n = 100_000 + self.next() as u32,
            _ => {}
        }
    }
    fn win(&mut self, w: &mut WinSpec) {
        for p in w.partition.iter_mut() {
            *p = self.expr(p);
        }
        for o in w.order.iter_mut() {
            self.ord(o);
        }
        if let Some((_, s, e)) = &mut w.frame {
            self.frame(s);
            if let Some(e) = e {
                self.frame(e);
            }
        }
    }
    fn from(&mut self, f: &mut FromSpec) {
        match f {
            FromSpec::Sub(s, _) => self.select(s),
            FromSpec::Values(rows, _) => {
                for r in rows.iter_mut() {
                    for v in r.iter_mut() {
                        if self.subst.is_none() {
                            *v = 2000 + self.next();
                        }
                    }
                }
            }
            _ => {}
        }
    }
    fn with(&mut self, w: &mut Option<WithSpec>) {
        if let Some(w) = w {
            for c in w.ctes.iter_mut() {
                self.select(&mut c.query);
            }
        }
    }
    fn select(&mut self, s: &mut SelectSpec) {
        self.with(&mut s.with);
        for it in s.items.iter_mut() {
            it.e = self.expr(&it.e);
            if let Some(WinRef::Inline(w)) = &mut it.win {
                self.win(w);
            }
        }
        for f in s.from.iter_mut() {
            self.from(f);
        }
        for j in s.joins.iter_mut() {
            self.from(&mut j.src);
            j.on = self.expr(&j.on);
        }
        for list in [&mut s.wheres, &mut s.groups, &mut s.havings] {
            for e in list.iter_mut() {
                *e = self.expr(e);
            }
        }
        if let Some(w) = &mut s.window {
            self.win(w);
        }
        for (_, u) in s.unions.iter_mut() {
            self.select(u);
        }
        for o in s.orders.iter_mut() {
            self.ord(o);
        }
        if self.subst.is_none() {
            if let Some(l) = &mut s.limit {
                *l = 300_000 + self.next() as u64;
            }
            if let Some(o) = &mut s.offset {
                *o = 400_000 + self.next() as u64;
            }
        }
    }
    fn returning(&mut self, r: &mut Option<Returning>) {
        if let Some(Returning::Exprs(es)) = r {
            for e in es.iter_mut() {
                *e = self.expr(e);
            }
        }
    }
}

/// Replace about two thirds of the integer / text value atoms by values of the given types (C02).
pub fn substitute_values(s: &mut Stmt, vs: &[VS]) {
    let t = Tagger { k: 0, subst: Some(vs.to_vec()) };
    walk_stmt(s, t);
}

/// Give every bound value of the statement a unique, recognisable payload.
pub fn tag_stmt(s: &mut Stmt) {
    let t = Tagger { k: 0, subst: None };
    walk_stmt(s, t);
}

fn walk_stmt(s: &mut Stmt, mut t: Tagger) {
    match s {
        Stmt::Select(q) => t.select(q),
        Stmt::Insert(i) => {
            t.with(&mut i.with);
            match &mut i.source {
                InsertSource::Values(rows) => {
                    for r in rows.iter_mut() {
                        for e in r.iter_mut() {
                            *e = t.expr(e);
                        }
                    }
                }
                InsertSource::Select(sel) => t.select(sel),
                InsertSource::Default(_) => {}
            }
            if let Some(c) = &mut i.on_conflict {
                if let Some(w) = &mut c.target_where {
                    *w = t.expr(w);
                }
                if let ConflictAction::UpdateValues(vals) = &mut c.action {
                    for (_, e) in vals.iter_mut() {
                        *e = t.expr(e);
                    }
                }
                if let Some(w) = &mut c.action_where {
                    *w = t.expr(w);
                }
            }
            t.returning(&mut i.returning);
        }
        Stmt::Update(u) => {
            t.with(&mut u.with);
            for (_, e) in u.sets.iter_mut() {
                *e = t.expr(e);
            }
            for w in u.wheres.iter_mut() {
                *w = t.expr(w);
            }
            for o in u.orders.iter_mut() {
                t.ord(o);
            }
            if let Some(l) = &mut u.limit {
                if t.subst.is_none() {
                    *l = 300_000 + t.next() as u64;
                }
            }
            t.returning(&mut u.returning);
        }
        Stmt::Delete(x) => {
            t.with(&mut x.with);
            for w in x.wheres.iter_mut() {
                *w = t.expr(w);
            }
            for o in x.orders.iter_mut() {
                t.ord(o);
            }
            if let Some(l) = &mut x.limit {
                if t.subst.is_none() {
                    *l = 300_000 + t.next() as u64;
                }
            }
            t.returning(&mut x.returning);
        }
    }
}
