use sqv::runner::{read_replay, Ctx, Obs, Stop, Tier};
use std::path::PathBuf;

fn main() {
    let args: Vec<String> = std::env::args().skip(1).collect();
    if args.is_empty() {
        eprintln!("usage: sqv <ID> [--tier quick|thorough] [--replay <file>] [--config <name>]");
        std::process::exit(2);
    }
    let id = args[0].clone();
    let mut tier = match std::env::var("VERIF_TIER").as_deref() {
        Ok("thorough") => Tier::Thorough,
        _ => Tier::Quick,
    };
    let mut replay: Option<PathBuf> = None;
    let mut config = "main".to_string();
    let mut i = 1;
    while i < args.len() {
        match args[i].as_str() {
            "--tier" => {
                i += 1;
                tier = if args.get(i).map(|s| s.as_str()) == Some("thorough") { Tier::Thorough } else { Tier::Quick };
            }
            "--replay" => {
                i += 1;
                replay = args.get(i).map(PathBuf::from);
            }
            "--config" => {
                i += 1;
                config = args.get(i).cloned().unwrap_or_default();
            }
            other => {
                eprintln!("unknown argument {other}");
                std::process::exit(2);
            }
        }
        i += 1;
    }
    let seed: u64 = std::env::var("VERIF_SEED").ok().and_then(|s| s.trim().parse::<i128>().ok()).map(|v| v as u64).unwrap_or(0);
    let root = PathBuf::from(std::env::var("SQV_ROOT").unwrap_or_else(|_| "/verif".to_string()));
    let props = sqv::props::all();
    let Some(prop) = props.iter().find(|p| p.id == id) else {
        eprintln!("unknown property {id}");
        std::process::exit(2);
    };
    // sea-query panics are caught and turned into verdicts; keep stderr readable
    if std::env::var("SQV_SHOW_PANICS").is_err() {
        std::panic::set_hook(Box::new(|_| {}));
    }

    if let Some(file) = replay {
        let ctx = Ctx::new(&id, tier, seed, root, &config);
        let (part, case) = match read_replay(&file) {
            Ok(x) => x,
            Err(e) => {
                eprintln!("cannot read replay: {e}");
                std::process::exit(2);
            }
        };
        let mut obs = Obs::default();
        obs.strict = true;
        let r = std::panic::catch_unwind(std::panic::AssertUnwindSafe(|| (prop.replay)(&part, &case, &mut obs)));
        let r = match r {
            Ok(r) => r,
            Err(p) => Err(Stop::Fail { sig: "panic/replay".into(), detail: sqv::runner::panic_message(p) }),
        };
        match r {
            Ok(()) => {
                println!("replay {}: property holds on this case", file.display());
                std::process::exit(0);
            }
            Err(Stop::Fail { sig, detail }) => {
                println!("replay {}: signature={sig}\n  {}", file.display(), detail.replace('\n', "\n  "));
                if let Some(k) = ctx.known.iter().find(|k| k.key == sig) {
                    println!("KNOWN-FINDING: property={} key={} {}", id, k.key, k.what);
                    std::process::exit(0);
                }
                println!("VIOLATION property={} replay={}", id, file.display());
                std::process::exit(1);
            }
            Err(other) => {
                println!("replay {}: not decided: {other:?}", file.display());
                std::process::exit(2);
            }
        }
    }

    let mut ctx = Ctx::new(&id, tier, seed, root, &config);
    let (fails, lines) = ctx.replay_committed(&|p, c, o| (prop.replay)(p, c, o));
    for l in lines {
        println!("{l}");
    }
    (prop.run)(&mut ctx);
    let code = ctx.finish(fails, "exploration");
    std::process::exit(code);
}
