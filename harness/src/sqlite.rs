//! Minimal FFI wrapper around the system libsqlite3 (3.40.1): the real engine is the oracle for
//! every property that speaks about SQLite.

use std::ffi::{c_char, c_int, c_void, CStr, CString};

#[repr(C)]
pub struct Sqlite3 {
    _p: [u8; 0],
}
#[repr(C)]
pub struct Stmt {
    _p: [u8; 0],
}

#[link(name = "sqlite3")]
extern "C" {
    fn sqlite3_open_v2(filename: *const c_char, db: *mut *mut Sqlite3, flags: c_int, vfs: *const c_char) -> c_int;
    fn sqlite3_close(db: *mut Sqlite3) -> c_int;
    fn sqlite3_prepare_v2(db: *mut Sqlite3, sql: *const c_char, n: c_int, stmt: *mut *mut Stmt, tail: *mut *const c_char) -> c_int;
    fn sqlite3_step(s: *mut Stmt) -> c_int;
    fn sqlite3_finalize(s: *mut Stmt) -> c_int;
    fn sqlite3_column_count(s: *mut Stmt) -> c_int;
    fn sqlite3_column_type(s: *mut Stmt, i: c_int) -> c_int;
    fn sqlite3_column_int64(s: *mut Stmt, i: c_int) -> i64;
    fn sqlite3_column_double(s: *mut Stmt, i: c_int) -> f64;
    fn sqlite3_column_text(s: *mut Stmt, i: c_int) -> *const u8;
    fn sqlite3_column_blob(s: *mut Stmt, i: c_int) -> *const c_void;
    fn sqlite3_column_bytes(s: *mut Stmt, i: c_int) -> c_int;
    fn sqlite3_column_name(s: *mut Stmt, i: c_int) -> *const c_char;
    fn sqlite3_bind_int64(s: *mut Stmt, i: c_int, v: i64) -> c_int;
    fn sqlite3_bind_double(s: *mut Stmt, i: c_int, v: f64) -> c_int;
    fn sqlite3_bind_text(s: *mut Stmt, i: c_int, p: *const c_char, n: c_int, d: isize) -> c_int;
    fn sqlite3_bind_blob(s: *mut Stmt, i: c_int, p: *const c_void, n: c_int, d: isize) -> c_int;
    fn sqlite3_bind_null(s: *mut Stmt, i: c_int) -> c_int;
    fn sqlite3_bind_parameter_count(s: *mut Stmt) -> c_int;
    fn sqlite3_errmsg(db: *mut Sqlite3) -> *const c_char;
    fn sqlite3_progress_handler(db: *mut Sqlite3, n: c_int, cb: Option<extern "C" fn(*mut c_void) -> c_int>, arg: *mut c_void);
    fn sqlite3_changes(db: *mut Sqlite3) -> c_int;
    fn sqlite3_libversion() -> *const c_char;
    fn sqlite3_config(op: c_int, ...) -> c_int;
}

const SQLITE_OK: c_int = 0;
const SQLITE_ROW: c_int = 100;
const SQLITE_DONE: c_int = 101;
const SQLITE_TRANSIENT: isize = -1;

#[derive(Clone, Debug, PartialEq, serde::Serialize, serde::Deserialize)]
pub enum Cell {
    Null,
    Int(i64),
    Real(f64),
    Text(String),
    /// text that is not valid UTF-8
    TextBytes(Vec<u8>),
    Blob(Vec<u8>),
}

impl Cell {
    /// total order key for multiset comparison
    pub fn key(&self) -> String {
        match self {
            Cell::Null => "0:".into(),
            Cell::Int(i) => format!("1:{i:+021}"),
            Cell::Real(f) => format!("2:{:016x}", f.to_bits()),
            Cell::Text(s) => format!("3:{s}"),
            Cell::TextBytes(b) => format!("4:{b:?}"),
            Cell::Blob(b) => format!("5:{b:?}"),
        }
    }
}

impl Eq for Cell {}

pub type Row = Vec<Cell>;

#[derive(Clone, Debug)]
pub enum Bind {
    Null,
    Int(i64),
    Real(f64),
    Text(String),
    Blob(Vec<u8>),
}

pub struct Db {
    db: *mut Sqlite3,
}

extern "C" fn progress_cb(arg: *mut c_void) -> c_int {
    // count down the budget; non-zero interrupts the statement
    let budget = unsafe { &mut *(arg as *mut i64) };
    *budget -= 1;
    (*budget <= 0) as c_int
}

#[derive(Clone, Debug, PartialEq, Eq)]
pub struct SqlError {
    pub msg: String,
    pub interrupted: bool,
}

pub fn version() -> String {
    unsafe { CStr::from_ptr(sqlite3_libversion()).to_string_lossy().to_string() }
}

static CONFIG_ONCE: std::sync::Once = std::sync::Once::new();

impl Db {
    pub fn memory() -> Db {
        // SQLite's allocation statistics serialise every allocation of all threads on one mutex:
        // switch them off (SQLITE_CONFIG_MEMSTATUS = 9) before the first connection. No effect on semantics.
        CONFIG_ONCE.call_once(|| unsafe {
            let _ = sqlite3_config(9, 0 as c_int);
        });
        let mut db: *mut Sqlite3 = std::ptr::null_mut();
        let name = CString::new(":memory:").unwrap();
        // READWRITE | CREATE | NOMUTEX: one connection per case, used by one thread
        let rc = unsafe { sqlite3_open_v2(name.as_ptr(), &mut db, 0x2 | 0x4 | 0x8000, std::ptr::null()) };
        assert_eq!(rc, SQLITE_OK, "cannot open in-memory database");
        Db { db }
    }

    fn errmsg(&self) -> String {
        unsafe { CStr::from_ptr(sqlite3_errmsg(self.db)).to_string_lossy().to_string() }
    }

    /// Prepare and run ONE statement (trailing text after it must be empty), returning all rows.
    pub fn query(&self, sql: &str, binds: &[Bind]) -> Result<(Vec<String>, Vec<Row>), SqlError> {
        let csql = match CString::new(sql) {
            Ok(c) => c,
            Err(_) => return Err(SqlError { msg: "statement text contains NUL".into(), interrupted: false }),
        };
        let mut stmt: *mut Stmt = std::ptr::null_mut();
        let mut tail: *const c_char = std::ptr::null();
        let rc = unsafe { sqlite3_prepare_v2(self.db, csql.as_ptr(), -1, &mut stmt, &mut tail) };
        if rc != SQLITE_OK {
            return Err(SqlError { msg: format!("prepare: {}", self.errmsg()), interrupted: false });
        }
        if stmt.is_null() {
            return Err(SqlError { msg: "prepare: empty statement".into(), interrupted: false });
        }
        let rest = unsafe { CStr::from_ptr(tail) }.to_bytes();
        if rest.iter().any(|b| !b.is_ascii_whitespace() && *b != b';') {
            unsafe { sqlite3_finalize(stmt) };
            return Err(SqlError {
                msg: format!("prepare: text after the first statement: {:?}", String::from_utf8_lossy(rest)),
                interrupted: false,
            });
        }
        let np = unsafe { sqlite3_bind_parameter_count(stmt) } as usize;
        if np != binds.len() {
            unsafe { sqlite3_finalize(stmt) };
            return Err(SqlError { msg: format!("bind: statement has {np} parameters, {} values supplied", binds.len()), interrupted: false });
        }
        for (i, b) in binds.iter().enumerate() {
            let idx = (i + 1) as c_int;
            let rc = unsafe {
                match b {
                    Bind::Null => sqlite3_bind_null(stmt, idx),
                    Bind::Int(v) => sqlite3_bind_int64(stmt, idx, *v),
                    Bind::Real(v) => sqlite3_bind_double(stmt, idx, *v),
                    Bind::Text(s) => sqlite3_bind_text(stmt, idx, s.as_ptr() as *const c_char, s.len() as c_int, SQLITE_TRANSIENT),
                    Bind::Blob(v) => {
                        if v.is_empty() {
                            // a NULL pointer would bind NULL; bind a zero-length blob
                            sqlite3_bind_blob(stmt, idx, [0u8].as_ptr() as *const c_void, 0, SQLITE_TRANSIENT)
                        } else {
                            sqlite3_bind_blob(stmt, idx, v.as_ptr() as *const c_void, v.len() as c_int, SQLITE_TRANSIENT)
                        }
                    }
                }
            };
            if rc != SQLITE_OK {
                let m = self.errmsg();
                unsafe { sqlite3_finalize(stmt) };
                return Err(SqlError { msg: format!("bind: {m}"), interrupted: false });
            }
        }
        let mut budget: i64 = 200_000; // x 1000 VM steps
        unsafe { sqlite3_progress_handler(self.db, 1000, Some(progress_cb), &mut budget as *mut i64 as *mut c_void) };
        let ncol = unsafe { sqlite3_column_count(stmt) };
        let mut names = vec![];
        for i in 0..ncol {
            let p = unsafe { sqlite3_column_name(stmt, i) };
            names.push(if p.is_null() { String::new() } else { unsafe { CStr::from_ptr(p) }.to_string_lossy().to_string() });
        }
        let mut rows = vec![];
        let result = loop {
            let rc = unsafe { sqlite3_step(stmt) };
            if rc == SQLITE_ROW {
                let mut row = Vec::with_capacity(ncol as usize);
                for i in 0..ncol {
                    let t = unsafe { sqlite3_column_type(stmt, i) };
                    row.push(match t {
                        1 => Cell::Int(unsafe { sqlite3_column_int64(stmt, i) }),
                        2 => Cell::Real(unsafe { sqlite3_column_double(stmt, i) }),
                        3 => {
                            let p = unsafe { sqlite3_column_text(stmt, i) };
                            let n = unsafe { sqlite3_column_bytes(stmt, i) } as usize;
                            let bytes = if p.is_null() { vec![] } else { unsafe { std::slice::from_raw_parts(p, n) }.to_vec() };
                            match String::from_utf8(bytes) {
                                Ok(s) => Cell::Text(s),
                                Err(e) => Cell::TextBytes(e.into_bytes()),
                            }
                        }
                        4 => {
                            let p = unsafe { sqlite3_column_blob(stmt, i) } as *const u8;
                            let n = unsafe { sqlite3_column_bytes(stmt, i) } as usize;
                            Cell::Blob(if p.is_null() { vec![] } else { unsafe { std::slice::from_raw_parts(p, n) }.to_vec() })
                        }
                        _ => Cell::Null,
                    });
                }
                rows.push(row);
                if rows.len() > 100_000 {
                    break Err(SqlError { msg: "more than 100000 rows".into(), interrupted: true });
                }
            } else if rc == SQLITE_DONE {
                break Ok(());
            } else {
                let interrupted = budget <= 0;
                break Err(SqlError { msg: format!("step: {}", self.errmsg()), interrupted });
            }
        };
        unsafe {
            sqlite3_finalize(stmt);
            sqlite3_progress_handler(self.db, 0, None, std::ptr::null_mut());
        }
        result.map(|_| (names, rows))
    }

    pub fn exec(&self, sql: &str) -> Result<(), SqlError> {
        self.query(sql, &[]).map(|_| ())
    }

    pub fn rows(&self, sql: &str) -> Result<Vec<Row>, SqlError> {
        self.query(sql, &[]).map(|x| x.1)
    }

    pub fn changes(&self) -> i64 {
        unsafe { sqlite3_changes(self.db) as i64 }
    }

    /// Only checks that the statement compiles (no execution).
    pub fn prepare_only(&self, sql: &str) -> Result<usize, SqlError> {
        let csql = CString::new(sql).map_err(|_| SqlError { msg: "NUL in text".into(), interrupted: false })?;
        let mut stmt: *mut Stmt = std::ptr::null_mut();
        let mut tail: *const c_char = std::ptr::null();
        let rc = unsafe { sqlite3_prepare_v2(self.db, csql.as_ptr(), -1, &mut stmt, &mut tail) };
        if rc != SQLITE_OK {
            return Err(SqlError { msg: format!("prepare: {}", self.errmsg()), interrupted: false });
        }
        let rest = unsafe { CStr::from_ptr(tail) }.to_bytes().to_vec();
        let n = if stmt.is_null() { 0 } else { unsafe { sqlite3_bind_parameter_count(stmt) as usize } };
        unsafe { sqlite3_finalize(stmt) };
        if rest.iter().any(|b| !b.is_ascii_whitespace() && *b != b';') {
            return Err(SqlError { msg: format!("prepare: text after the first statement: {:?}", String::from_utf8_lossy(&rest)), interrupted: false });
        }
        Ok(n)
    }
}

impl Drop for Db {
    fn drop(&mut self) {
        unsafe { sqlite3_close(self.db) };
    }
}

thread_local! {
    static SCRATCH: Db = Db::memory();
}

/// Run `f` on a per-thread scratch connection inside a transaction that is always rolled back:
/// every case starts from an empty database without paying for a new connection.
pub fn scratch<T>(f: impl FnOnce(&Db) -> T) -> T {
    SCRATCH.with(|db| {
        let _ = db.exec("BEGIN");
        let r = f(db);
        let _ = db.exec("ROLLBACK");
        r
    })
}

impl Db {
    /// run `f` inside a transaction on this connection and roll it back afterwards
    pub fn rolled_back<T>(&self, f: impl FnOnce(&Db) -> T) -> T {
        let _ = self.exec("BEGIN");
        let r = f(self);
        let _ = self.exec("ROLLBACK");
        r
    }
}

/// rows as a sorted multiset
pub fn sorted(mut rows: Vec<Row>) -> Vec<Row> {
    rows.sort_by_key(|r| r.iter().map(|c| c.key()).collect::<Vec<_>>());
    rows
}
