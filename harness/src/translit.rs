//! Token-by-token transliteration of MySQL / Postgres renderings into SQLite spelling (C09):
//! identifier quotes, placeholder style, literal syntax (decoded, then re-encoded), set-operation
//! parentheses, `VALUES ROW(..)`, default-row forms and the documented function substitutions.
//! Nothing else is changed, so executing the result on SQLite evaluates the *structure* the other
//! backend produced.

use crate::lex::{self, enc_bytes, enc_ident, enc_str, Tok, Token};
use crate::util::Dialect;

#[derive(Debug)]
pub enum TErr {
    Lex(String),
    /// the rendering uses something its own dialect does not define (e.g. IFNULL on Postgres)
    NotInDialect(String),
    Shape(String),
}

/// functions the portable subset may use, by source dialect: (name in source, name in SQLite, min args for the n-ary forms)
fn map_function(d: Dialect, name: &str, nargs: usize) -> Result<Option<&'static str>, TErr> {
    let up = name.to_ascii_uppercase();
    match (d, up.as_str()) {
        (Dialect::Postgres, "IFNULL") => Err(TErr::NotInDialect("IFNULL is not a Postgres function (COALESCE is)".into())),
        (Dialect::Mysql | Dialect::Postgres, "MAX" | "MIN") if nargs > 1 => Err(TErr::NotInDialect(format!("{up} with {nargs} arguments is SQLite-only (GREATEST / LEAST elsewhere)"))),
        (Dialect::Mysql | Dialect::Postgres, "LENGTH") => Err(TErr::NotInDialect("LENGTH counts bytes on MySQL; the documented name is CHAR_LENGTH".into())),
        (Dialect::Mysql | Dialect::Postgres, "GREATEST") => Ok(Some("MAX")),
        (Dialect::Mysql | Dialect::Postgres, "LEAST") => Ok(Some("MIN")),
        (Dialect::Mysql | Dialect::Postgres, "CHAR_LENGTH") => Ok(Some("LENGTH")),
        _ => Ok(None),
    }
}

fn count_args(toks: &[Token], open: usize) -> usize {
    // number of top-level comma separated arguments of the parenthesis opening at `open`
    let mut depth = 0;
    let mut commas = 0;
    let mut any = false;
    for t in &toks[open..] {
        match &t.tok {
            Tok::LParen => depth += 1,
            Tok::RParen => {
                depth -= 1;
                if depth == 0 {
                    break;
                }
            }
            Tok::Comma if depth == 1 => commas += 1,
            _ if depth >= 1 => any = true,
            _ => {}
        }
    }
    if any {
        commas + 1
    } else {
        0
    }
}

fn matching_paren(toks: &[Token], open: usize) -> Option<usize> {
    let mut depth = 0;
    for (i, t) in toks.iter().enumerate().skip(open) {
        match &t.tok {
            Tok::LParen => depth += 1,
            Tok::RParen => {
                depth -= 1;
                if depth == 0 {
                    return Some(i);
                }
            }
            _ => {}
        }
    }
    None
}

pub fn to_sqlite(d: Dialect, sql: &str) -> Result<String, TErr> {
    let toks = lex::lex(d, sql).map_err(|e| TErr::Lex(format!("{e:?}")))?;
    if d == Dialect::Sqlite {
        return Ok(sql.to_string());
    }
    // parentheses to drop: the ones around set-operation arms
    let mut drop = vec![false; toks.len()];
    // arms that are themselves compound selects: SQLite groups them through a derived table
    let mut wrap = vec![false; toks.len()];
    let mut i = 0;
    while i < toks.len() {
        let is_setop = matches!(&toks[i].tok, Tok::Word(w) if ["UNION", "INTERSECT", "EXCEPT"].contains(&w.to_ascii_uppercase().as_str()));
        if is_setop {
            let mut j = i + 1;
            if matches!(toks.get(j).map(|t| &t.tok), Some(t) if t.is_word("ALL")) {
                j += 1;
            }
            if toks.get(j).map(|t| &t.tok) == Some(&Tok::LParen) && matches!(toks.get(j + 1).map(|t| &t.tok), Some(t) if t.is_word("SELECT")) {
                match matching_paren(&toks, j) {
                    Some(k) => {
                        let mut depth = 0;
                        let mut compound = false;
                        for t in &toks[j + 1..k] {
                            match &t.tok {
                                Tok::LParen => depth += 1,
                                Tok::RParen => depth -= 1,
                                Tok::Word(w) if depth == 0 && ["UNION", "INTERSECT", "EXCEPT"].contains(&w.to_ascii_uppercase().as_str()) => compound = true,
                                _ => {}
                            }
                        }
                        if compound {
                            wrap[j] = true;
                        } else {
                            drop[j] = true;
                            drop[k] = true;
                        }
                    }
                    None => return Err(TErr::Shape("unbalanced set-operation parenthesis".into())),
                }
            }
        }
        i += 1;
    }
    let mut out: Vec<String> = vec![];
    let mut i = 0;
    while i < toks.len() {
        if drop[i] {
            i += 1;
            continue;
        }
        let t = &toks[i].tok;
        match t {
            Tok::Ident(s) => out.push(enc_ident(Dialect::Sqlite, s)),
            // SQLite reads a single-quoted string as an identifier where only an identifier fits (a documented quirk); a string literal
            // of the source dialect is therefore written as a parenthesised expression, which keeps its value wherever a value is
            // allowed and is a syntax error wherever the source dialect had put a string in place of a name
            Tok::Str(s) => out.push(format!("({})", enc_str(Dialect::Sqlite, s))),
            Tok::Bytes(b) => out.push(enc_bytes(Dialect::Sqlite, b)),
            Tok::Param(None) => out.push("?".into()),
            Tok::Param(Some(n)) => out.push(format!("?{n}")),
            Tok::Num(n) => out.push(n.clone()),
            Tok::Word(w) => {
                let up = w.to_ascii_uppercase();
                let next_is_paren = toks.get(i + 1).map(|t| &t.tok) == Some(&Tok::LParen);
                if up == "ROW" && next_is_paren {
                    // MySQL: VALUES ROW(..), ROW(..)
                } else if up == "VALUES" && next_is_paren {
                    // default-row forms: MySQL `VALUES ()`, Postgres `VALUES (DEFAULT)`
                    let close = matching_paren(&toks, i + 1);
                    let inner: Vec<&Tok> = close.map(|c| toks[i + 2..c].iter().map(|t| &t.tok).collect()).unwrap_or_default();
                    let is_default_row = inner.is_empty() || (inner.len() == 1 && inner[0].is_word("DEFAULT"));
                    if is_default_row && close.is_some() {
                        out.push("DEFAULT VALUES".into());
                        i = close.unwrap() + 1;
                        // further default rows cannot be expressed in SQLite
                        if toks.get(i).map(|t| &t.tok) == Some(&Tok::Comma) {
                            return Err(TErr::Shape("several default rows".into()));
                        }
                        continue;
                    }
                    out.push(w.clone());
                } else if next_is_paren {
                    match map_function(d, w, count_args(&toks, i + 1))? {
                        Some(m) => out.push(m.into()),
                        None => out.push(w.clone()),
                    }
                } else {
                    out.push(w.clone());
                }
            }
            Tok::Op(o) => out.push(o.clone()),
            Tok::LParen if wrap[i] => out.push("SELECT * FROM (".into()),
            Tok::LParen => out.push("(".into()),
            Tok::RParen => out.push(")".into()),
            Tok::LBracket => out.push("[".into()),
            Tok::RBracket => out.push("]".into()),
            Tok::Comma => out.push(",".into()),
            Tok::Dot => out.push(".".into()),
            Tok::Semi => out.push(";".into()),
            Tok::Comment(c) => return Err(TErr::Shape(format!("comment in statement: {c}"))),
        }
        i += 1;
    }
    // join with spaces, except around dots
    let mut s = String::new();
    for (k, p) in out.iter().enumerate() {
        if k > 0 && p != "." && out[k - 1] != "." {
            s.push(' ');
        }
        s.push_str(p);
    }
    Ok(s)
}
