//! `refsql`: an independent, deliberately dumb renderer from statement specs to SQLite SQL.
//! Every expression is fully parenthesised (`E::ref_sqlite`), every clause is written from the
//! spec in the order the SQLite grammar requires, identifiers and literals are written by the
//! harness's own quoting functions. It shares nothing with sea-query's backends.

use crate::expr_spec::*;
use crate::lex::enc_ident;
use crate::stmt_spec::*;
use crate::util::Dialect;

fn q(s: &str) -> String {
    enc_ident(Dialect::Sqlite, s)
}

fn ex(e: &E) -> Option<String> {
    e.ref_sqlite()
}

fn ord(o: &OrdSpec) -> Option<String> {
    let e = ex(&o.e)?;
    let mut s = match &o.dir {
        Dir::Asc => format!("{e} ASC"),
        Dir::Desc => format!("{e} DESC"),
        Dir::Field(vals) => {
            let mut c = String::from("CASE");
            for (i, v) in vals.iter().enumerate() {
                let lit = match field_text(*v) {
                    Some(t) => crate::lex::enc_str(crate::util::Dialect::Sqlite, &t),
                    None => v.to_string(),
                };
                c.push_str(&format!(" WHEN ({e}) = {lit} THEN {i}"));
            }
            c.push_str(&format!(" ELSE {} END", vals.len()));
            c
        }
    };
    match o.nulls {
        Some(true) => s.push_str(" NULLS FIRST"),
        Some(false) => s.push_str(" NULLS LAST"),
        None => {}
    }
    Some(s)
}

fn frame_bound(b: &FrameB) -> String {
    match b {
        FrameB::UnboundedPreceding => "UNBOUNDED PRECEDING".into(),
        FrameB::Preceding(n) => format!("{n} PRECEDING"),
        FrameB::CurrentRow => "CURRENT ROW".into(),
        FrameB::Following(n) => format!("{n} FOLLOWING"),
        FrameB::UnboundedFollowing => "UNBOUNDED FOLLOWING".into(),
    }
}

fn window(w: &WinSpec) -> Option<String> {
    let mut parts = vec![];
    if !w.partition.is_empty() {
        let p: Option<Vec<String>> = w.partition.iter().map(ex).collect();
        parts.push(format!("PARTITION BY {}", p?.join(", ")));
    }
    if !w.order.is_empty() {
        let o: Option<Vec<String>> = w.order.iter().map(ord).collect();
        parts.push(format!("ORDER BY {}", o?.join(", ")));
    }
    if let Some((rows, start, end)) = &w.frame {
        let unit = if *rows { "ROWS" } else { "RANGE" };
        parts.push(match end {
            Some(e) => format!("{unit} BETWEEN {} AND {}", frame_bound(start), frame_bound(e)),
            None => format!("{unit} {}", frame_bound(start)),
        });
    }
    Some(parts.join(" "))
}

fn source(f: &FromSpec) -> Option<String> {
    Some(match f {
        FromSpec::Table(t, None) => q(TABLES[*t as usize % 3]),
        FromSpec::Table(t, Some(a)) => format!("{} AS {}", q(TABLES[*t as usize % 3]), q(QUALS[*a as usize % 8])),
        FromSpec::Cte(c, None) => q(QUALS[6 + *c as usize % 2]),
        FromSpec::Cte(c, Some(a)) => format!("{} AS {}", q(QUALS[6 + *c as usize % 2]), q(QUALS[*a as usize % 8])),
        FromSpec::Sub(s, a) => format!("({}) AS {}", ref_select(s)?, q(QUALS[*a as usize % 8])),
        FromSpec::Values(rows, a) => {
            let rs: Vec<String> = rows.iter().map(|r| format!("({})", r.iter().map(|v| v.to_string()).collect::<Vec<_>>().join(", "))).collect();
            format!("(VALUES {}) AS {}", rs.join(", "), q(QUALS[*a as usize % 8]))
        }
    })
}

fn with_clause(w: &Option<WithSpec>) -> Option<String> {
    let Some(w) = w else { return Some(String::new()) };
    let mut ctes = vec![];
    for c in &w.ctes {
        let mut s = q(cte_name(c.name));
        let cols = c.effective_cols();
        if !cols.is_empty() {
            s.push_str(&format!(" ({})", cols.iter().map(|x| q(x)).collect::<Vec<_>>().join(", ")));
        }
        s.push_str(" AS ");
        match c.materialized {
            Some(true) => s.push_str("MATERIALIZED "),
            Some(false) => s.push_str("NOT MATERIALIZED "),
            None => {}
        }
        s.push_str(&format!("({})", ref_select(&c.query)?));
        ctes.push(s);
    }
    Some(format!("WITH {}{} ", if w.recursive { "RECURSIVE " } else { "" }, ctes.join(", ")))
}

fn conj(list: &[E]) -> Option<String> {
    let parts: Option<Vec<String>> = list.iter().map(|e| ex(e).map(|s| format!("({s})"))).collect();
    Some(parts?.join(" AND "))
}

/// the core of a select (no WITH, no ORDER BY / LIMIT)
fn select_core(s: &SelectSpec) -> Option<String> {
    let mut sql = String::from("SELECT ");
    if matches!(s.distinct, Some(Dist::Distinct)) {
        sql.push_str("DISTINCT ");
    }
    let mut items = vec![];
    for it in &s.items {
        let mut t = ex(&it.e)?;
        match &it.win {
            Some(WinRef::Inline(w)) => t.push_str(&format!(" OVER ({})", window(w)?)),
            Some(WinRef::Named) => t.push_str(&format!(" OVER {}", q("w"))),
            None => {}
        }
        if let Some(a) = it.alias {
            t.push_str(&format!(" AS {}", q(item_alias(a))));
        }
        items.push(t);
    }
    sql.push_str(&items.join(", "));
    if !s.from.is_empty() {
        let f: Option<Vec<String>> = s.from.iter().map(source).collect();
        sql.push_str(&format!(" FROM {}", f?.join(", ")));
    }
    for j in &s.joins {
        let kw = match j.kind {
            JoinKind::Join => "JOIN",
            JoinKind::Inner => "INNER JOIN",
            JoinKind::Left => "LEFT JOIN",
            JoinKind::Right => "RIGHT JOIN",
            JoinKind::FullOuter => "FULL OUTER JOIN",
            JoinKind::Cross => "CROSS JOIN",
        };
        sql.push_str(&format!(" {kw} {} ON ({})", source(&j.src)?, ex(&j.on)?));
    }
    if !s.wheres.is_empty() {
        sql.push_str(&format!(" WHERE {}", conj(&s.wheres)?));
    }
    if !s.groups.is_empty() {
        let g: Option<Vec<String>> = s.groups.iter().map(ex).collect();
        sql.push_str(&format!(" GROUP BY {}", g?.join(", ")));
    }
    if !s.havings.is_empty() {
        sql.push_str(&format!(" HAVING {}", conj(&s.havings)?));
    }
    if let Some(w) = &s.window {
        sql.push_str(&format!(" WINDOW {} AS ({})", q("w"), window(w)?));
    }
    Some(sql)
}

pub fn ref_select(s: &SelectSpec) -> Option<String> {
    let mut sql = with_clause(&s.with)?;
    sql.push_str(&select_core(s)?);
    for (u, arm) in &s.unions {
        let kw = match u {
            Un::Union => "UNION",
            Un::UnionAll => "UNION ALL",
            Un::Intersect => "INTERSECT",
            Un::Except => "EXCEPT",
        };
        if arm.unions.is_empty() && arm.orders.is_empty() && arm.limit.is_none() && arm.offset.is_none() && arm.with.is_none() {
            sql.push_str(&format!(" {kw} {}", select_core(arm)?));
        } else {
            // SQLite has no parenthesised compound operands: group through a derived table
            sql.push_str(&format!(" {kw} SELECT * FROM ({})", ref_select(arm)?));
        }
    }
    if !s.orders.is_empty() {
        let o: Option<Vec<String>> = s.orders.iter().map(ord).collect();
        sql.push_str(&format!(" ORDER BY {}", o?.join(", ")));
    }
    if let Some(l) = s.limit {
        sql.push_str(&format!(" LIMIT {l}"));
    }
    if let Some(o) = s.offset {
        sql.push_str(&format!(" OFFSET {o}"));
    }
    Some(sql)
}

fn returning(r: &Option<Returning>) -> Option<String> {
    Some(match r {
        None => String::new(),
        Some(Returning::All) => " RETURNING *".into(),
        Some(Returning::Cols(c)) => format!(" RETURNING {}", c.iter().map(|i| q(T3COLS[*i as usize % 6])).collect::<Vec<_>>().join(", ")),
        Some(Returning::Exprs(es)) => {
            let v: Option<Vec<String>> = es.iter().map(ex).collect();
            format!(" RETURNING {}", v?.join(", "))
        }
    })
}

pub fn ref_stmt(s: &Stmt) -> Option<String> {
    match s {
        Stmt::Select(q) => ref_select(q),
        Stmt::Insert(i) => {
            let mut sql = with_clause(&i.with)?;
            sql.push_str(if i.replace { "REPLACE" } else { "INSERT" });
            sql.push_str(&format!(" INTO {}", q(TABLES[i.table as usize % 3])));
            match &i.source {
                InsertSource::Default(_) => sql.push_str(" DEFAULT VALUES"),
                InsertSource::Values(rows) => {
                    sql.push_str(&format!(" ({})", i.columns.iter().map(|c| q(T3COLS[*c as usize % 6])).collect::<Vec<_>>().join(", ")));
                    let mut rs = vec![];
                    for r in rows {
                        let cells: Option<Vec<String>> = r.iter().map(ex).collect();
                        rs.push(format!("({})", cells?.join(", ")));
                    }
                    sql.push_str(&format!(" VALUES {}", rs.join(", ")));
                }
                InsertSource::Select(sel) => {
                    sql.push_str(&format!(" ({})", i.columns.iter().map(|c| q(T3COLS[*c as usize % 6])).collect::<Vec<_>>().join(", ")));
                    sql.push_str(&format!(" {}", ref_select(sel)?));
                }
            }
            if let Some(c) = &i.on_conflict {
                sql.push_str(" ON CONFLICT");
                if !c.targets.is_empty() {
                    sql.push_str(&format!(" ({})", c.targets.iter().map(|t| q(T3COLS[*t as usize % 6])).collect::<Vec<_>>().join(", ")));
                }
                if let Some(w) = &c.target_where {
                    sql.push_str(&format!(" WHERE ({})", ex(w)?));
                }
                match &c.action {
                    ConflictAction::DoNothing | ConflictAction::DoNothingOn(_) => sql.push_str(" DO NOTHING"),
                    ConflictAction::UpdateColumns(cols) => {
                        let sets: Vec<String> = cols.iter().map(|x| format!("{} = {}.{}", q(T3COLS[*x as usize % 6]), q("excluded"), q(T3COLS[*x as usize % 6]))).collect();
                        sql.push_str(&format!(" DO UPDATE SET {}", sets.join(", ")));
                    }
                    ConflictAction::UpdateValues(vals) => {
                        let mut sets = vec![];
                        for (x, e) in vals {
                            sets.push(format!("{} = {}", q(T3COLS[*x as usize % 6]), ex(e)?));
                        }
                        sql.push_str(&format!(" DO UPDATE SET {}", sets.join(", ")));
                    }
                }
                if let Some(w) = &c.action_where {
                    sql.push_str(&format!(" WHERE ({})", ex(w)?));
                }
            }
            sql.push_str(&returning(&i.returning)?);
            Some(sql)
        }
        Stmt::Update(u) => {
            let mut sql = with_clause(&u.with)?;
            sql.push_str(&format!("UPDATE {} SET ", q(TABLES[u.table as usize % 3])));
            let mut sets = vec![];
            for (c, e) in &u.sets {
                sets.push(format!("{} = {}", q(T3COLS[*c as usize % 6]), ex(e)?));
            }
            sql.push_str(&sets.join(", "));
            if !u.from.is_empty() {
                let f: Option<Vec<String>> = u.from.iter().map(source).collect();
                sql.push_str(&format!(" FROM {}", f?.join(", ")));
            }
            if !u.wheres.is_empty() {
                sql.push_str(&format!(" WHERE {}", conj(&u.wheres)?));
            }
            // SQLite's grammar: RETURNING comes before ORDER BY / LIMIT
            sql.push_str(&returning(&u.returning)?);
            if !u.orders.is_empty() {
                let o: Option<Vec<String>> = u.orders.iter().map(ord).collect();
                sql.push_str(&format!(" ORDER BY {}", o?.join(", ")));
            }
            if let Some(l) = u.limit {
                sql.push_str(&format!(" LIMIT {l}"));
            }
            Some(sql)
        }
        Stmt::Delete(x) => {
            let mut sql = with_clause(&x.with)?;
            sql.push_str(&format!("DELETE FROM {}", q(TABLES[x.table as usize % 3])));
            if !x.wheres.is_empty() {
                sql.push_str(&format!(" WHERE {}", conj(&x.wheres)?));
            }
            sql.push_str(&returning(&x.returning)?);
            if !x.orders.is_empty() {
                let o: Option<Vec<String>> = x.orders.iter().map(ord).collect();
                sql.push_str(&format!(" ORDER BY {}", o?.join(", ")));
            }
            if let Some(l) = x.limit {
                sql.push_str(&format!(" LIMIT {l}"));
            }
            Some(sql)
        }
    }
}

/// the fixed schema and data of the executable properties
pub const SCHEMA: &[&str] = &[
    "CREATE TABLE \"t1\" (\"id\" INTEGER PRIMARY KEY, \"p\" INT, \"q\" INT, \"r\" INT, \"s\" INT)",
    "CREATE TABLE \"t2\" (\"id\" INTEGER PRIMARY KEY, \"p\" INT, \"q\" INT, \"r\" INT, \"s\" INT)",
    "CREATE TABLE \"t3\" (\"id\" INTEGER PRIMARY KEY, \"p\" INT, \"q\" INT DEFAULT 7, \"r\" INT, \"s\" INT, \"k\" INT UNIQUE)",
    "CREATE TABLE \"tt\" (\"id\" INTEGER PRIMARY KEY, \"p\" INT, \"q\" INT, \"r\" INT, \"s\" INT)",
    "INSERT INTO \"t1\" VALUES (1, 1, 0, NULL, 2), (2, 2, 1, 1, NULL), (3, NULL, 1, 2, 2), (4, 1, NULL, 0, 1), (5, 3, 2, 1, 0), (6, 1, 0, NULL, 2)",
    "INSERT INTO \"t2\" VALUES (1, 2, 2, 0, NULL), (2, 1, NULL, 1, 1), (3, 0, 1, NULL, 3), (4, NULL, 0, 2, 1), (5, 2, 2, 0, 0), (7, 4, 1, 1, 2)",
    "INSERT INTO \"t3\" VALUES (1, 1, 1, 1, 1, 0), (2, 2, NULL, 0, 2, 1), (3, NULL, 2, 2, 0, 2), (4, 0, 0, NULL, 1, 3), (5, 1, 2, 1, NULL, NULL)",
    "INSERT INTO \"tt\" VALUES (1, 1, 0, 1, 2), (2, 2, NULL, 0, 1), (3, NULL, 1, 2, 0)",
];
