//! Clause inventories for MySQL and Postgres (oracle of C08).
//!
//! `parse_statement` is a recursive-descent parser over the dialect lexer's tokens that follows the
//! clause order of the dialect's reference grammar and REJECTS a clause out of order or repeated, a
//! missing / extra comma or parenthesis, an unknown token, or a construct of the other dialect.
//! It returns a *clause inventory* (JSON): which clauses are present, with their items in order and
//! their expressions as neutral trees (`parse::PT`). `expected_statement` builds the inventory the
//! spec calls for in that dialect, independently of any rendering.

use crate::expr_spec::*;
use crate::lex::{Tok, Token};
use crate::parse::{PErr, PRes, P, PT};
use crate::stmt_spec::*;
use crate::util::Dialect;
use serde_json::{json, Value as J};

fn syn<T>(p: &P, msg: impl Into<String>) -> PRes<T> {
    Err(PErr::Syntax { at: p.i, msg: format!("{} (at token {}: {})", msg.into(), p.i, p.peek().map(|t| t.show()).unwrap_or("end of statement".into())) })
}

fn pt(e: &PT) -> J {
    serde_json::to_value(e).unwrap_or(J::Null)
}

/// flatten a conjunction into its conjuncts (AND is associative; exact grouping is C05's concern)
fn conjuncts(e: PT, out: &mut Vec<PT>) {
    match e {
        PT::Bin(op, l, r) if op == "AND" => {
            conjuncts(*l, out);
            conjuncts(*r, out);
        }
        other => out.push(other),
    }
}

fn conj_json(e: PT) -> J {
    let mut v = vec![];
    conjuncts(e, &mut v);
    drop_true(&mut v);
    J::Array(v.iter().map(pt).collect())
}

/// `TRUE AND x` is `x`: an empty all-group among other conjuncts may or may not be written (both sides are normalised the same way)
fn drop_true(v: &mut Vec<PT>) {
    if v.len() > 1 {
        let is_true = |p: &PT| matches!(p, PT::Kw(k) if k == "TRUE");
        if v.iter().all(is_true) {
            v.truncate(1);
        } else {
            v.retain(|p| !is_true(p));
        }
    }
}

fn ident(p: &mut P) -> PRes<String> {
    match p.peek() {
        Some(Tok::Ident(s)) => {
            p.i += 1;
            Ok(s.clone())
        }
        _ => syn(p, "quoted identifier expected"),
    }
}

fn ident_chain(p: &mut P) -> PRes<Vec<String>> {
    let mut v = vec![ident(p)?];
    while p.peek() == Some(&Tok::Dot) {
        p.i += 1;
        v.push(ident(p)?);
    }
    Ok(v)
}

fn expr_list(p: &mut P) -> PRes<Vec<PT>> {
    let mut v = vec![p.parse_expr()?];
    while p.eat(&Tok::Comma) {
        v.push(p.parse_expr()?);
    }
    Ok(v)
}

fn order_terms(p: &mut P) -> PRes<J> {
    let mut v = vec![];
    loop {
        let e = p.parse_expr()?;
        let dir = if p.eat_word("ASC") {
            json!("ASC")
        } else if p.eat_word("DESC") {
            json!("DESC")
        } else {
            J::Null
        };
        let mut nulls = J::Null;
        if p.is_word("NULLS") {
            if p.d != Dialect::Postgres {
                return syn(p, "NULLS FIRST/LAST is not MySQL syntax");
            }
            p.i += 1;
            nulls = if p.eat_word("FIRST") {
                json!("FIRST")
            } else if p.eat_word("LAST") {
                json!("LAST")
            } else {
                return syn(p, "FIRST or LAST expected");
            };
        }
        v.push(json!({"e": pt(&e), "dir": dir, "nulls": nulls}));
        if !p.eat(&Tok::Comma) {
            break;
        }
    }
    Ok(J::Array(v))
}

fn frame_bound(p: &mut P) -> PRes<J> {
    if p.eat_word("UNBOUNDED") {
        if p.eat_word("PRECEDING") {
            return Ok(json!("UNBOUNDED PRECEDING"));
        }
        if p.eat_word("FOLLOWING") {
            return Ok(json!("UNBOUNDED FOLLOWING"));
        }
        return syn(p, "PRECEDING or FOLLOWING expected");
    }
    if p.eat_word("CURRENT") {
        p.expect_word("ROW")?;
        return Ok(json!("CURRENT ROW"));
    }
    let e = p.parse_expr()?;
    if p.eat_word("PRECEDING") {
        Ok(json!({"preceding": pt(&e)}))
    } else if p.eat_word("FOLLOWING") {
        Ok(json!({"following": pt(&e)}))
    } else {
        syn(p, "PRECEDING or FOLLOWING expected after the frame offset")
    }
}

/// window definition between the parentheses
fn window_def(p: &mut P) -> PRes<J> {
    let mut partition = vec![];
    let mut orders = J::Array(vec![]);
    let mut frame = J::Null;
    if p.eat_word("PARTITION") {
        p.expect_word("BY")?;
        partition = expr_list(p)?;
    }
    if p.eat_word("ORDER") {
        p.expect_word("BY")?;
        orders = order_terms(p)?;
    }
    if p.is_word("ROWS") || p.is_word("RANGE") {
        let unit = if p.eat_word("ROWS") { "ROWS" } else { p.i += 1; "RANGE" };
        if p.eat_word("BETWEEN") {
            let s = frame_bound(p)?;
            p.expect_word("AND")?;
            let e = frame_bound(p)?;
            frame = json!({"unit": unit, "start": s, "end": e});
        } else {
            let s = frame_bound(p)?;
            frame = json!({"unit": unit, "start": s, "end": J::Null});
        }
    }
    Ok(json!({"partition": partition.iter().map(pt).collect::<Vec<_>>(), "orders": orders, "frame": frame}))
}

fn source(p: &mut P) -> PRes<J> {
    if p.peek() == Some(&Tok::LParen) {
        p.i += 1;
        let inner = if p.is_word("VALUES") {
            p.i += 1;
            let mut rows = vec![];
            loop {
                if p.is_word("ROW") {
                    if p.d != Dialect::Mysql {
                        return syn(p, "ROW(..) is MySQL syntax");
                    }
                    p.i += 1;
                } else if p.d == Dialect::Mysql {
                    return syn(p, "MySQL needs VALUES ROW(..)");
                }
                p.expect(&Tok::LParen)?;
                let cells = expr_list(p)?;
                p.expect(&Tok::RParen)?;
                rows.push(J::Array(cells.iter().map(pt).collect()));
                if !p.eat(&Tok::Comma) {
                    break;
                }
            }
            json!({"values": rows})
        } else {
            json!({"sub": select(p, true)?})
        };
        p.expect(&Tok::RParen)?;
        p.expect_word("AS")?;
        let alias = ident(p)?;
        let mut o = inner;
        o["alias"] = json!(alias);
        return Ok(o);
    }
    let name = ident_chain(p)?;
    let alias = if p.eat_word("AS") { json!(ident(p)?) } else { J::Null };
    Ok(json!({"table": name, "alias": alias}))
}

fn with_clause(p: &mut P) -> PRes<J> {
    p.expect_word("WITH")?;
    let recursive = p.eat_word("RECURSIVE");
    let mut ctes = vec![];
    loop {
        let name = ident(p)?;
        let mut cols = vec![];
        if p.eat(&Tok::LParen) {
            loop {
                cols.push(ident(p)?);
                if !p.eat(&Tok::Comma) {
                    break;
                }
            }
            p.expect(&Tok::RParen)?;
        }
        p.expect_word("AS")?;
        let mut mat = J::Null;
        if p.is_word("NOT") && p.is_word_at(1, "MATERIALIZED") {
            if p.d != Dialect::Postgres {
                return syn(p, "MATERIALIZED is not MySQL syntax");
            }
            p.i += 2;
            mat = json!(false);
        } else if p.is_word("MATERIALIZED") {
            if p.d != Dialect::Postgres {
                return syn(p, "MATERIALIZED is not MySQL syntax");
            }
            p.i += 1;
            mat = json!(true);
        }
        p.expect(&Tok::LParen)?;
        let q = select(p, true)?;
        p.expect(&Tok::RParen)?;
        ctes.push(json!({"name": name, "cols": cols, "materialized": mat, "query": q}));
        if !p.eat(&Tok::Comma) {
            break;
        }
    }
    let mut search = J::Null;
    let mut cycle = J::Null;
    if p.is_word("SEARCH") {
        if p.d != Dialect::Postgres {
            return syn(p, "SEARCH is not MySQL syntax");
        }
        p.i += 1;
        let breadth = if p.eat_word("BREADTH") {
            true
        } else if p.eat_word("DEPTH") {
            false
        } else {
            return syn(p, "BREADTH or DEPTH expected");
        };
        p.expect_word("FIRST")?;
        p.expect_word("BY")?;
        let e = p.parse_expr()?;
        p.expect_word("SET")?;
        let a = ident(p)?;
        search = json!({"breadth": breadth, "by": pt(&e), "set": a});
    }
    if p.is_word("CYCLE") {
        if p.d != Dialect::Postgres {
            return syn(p, "CYCLE is not MySQL syntax");
        }
        p.i += 1;
        let e = p.parse_expr()?;
        p.expect_word("SET")?;
        let a = ident(p)?;
        p.expect_word("USING")?;
        let b = ident(p)?;
        cycle = json!({"expr": pt(&e), "set": a, "using": b});
    }
    Ok(json!({"recursive": recursive, "ctes": ctes, "search": search, "cycle": cycle}))
}

pub fn select(p: &mut P, allow_with: bool) -> PRes<J> {
    let with = if p.is_word("WITH") {
        if !allow_with {
            return syn(p, "WITH not allowed here");
        }
        with_clause(p)?
    } else {
        J::Null
    };
    p.expect_word("SELECT")?;
    let mut distinct = J::Null;
    if p.eat_word("DISTINCT") {
        distinct = json!("DISTINCT");
        if p.is_word("ON") {
            if p.d != Dialect::Postgres {
                return syn(p, "DISTINCT ON is Postgres syntax");
            }
            p.i += 1;
            p.expect(&Tok::LParen)?;
            let cols = expr_list(p)?;
            p.expect(&Tok::RParen)?;
            distinct = json!({"on": cols.iter().map(pt).collect::<Vec<_>>()});
        }
    } else if p.eat_word("ALL") {
        distinct = json!("ALL");
    } else if p.is_word("DISTINCTROW") {
        if p.d != Dialect::Mysql {
            return syn(p, "DISTINCTROW is MySQL syntax");
        }
        p.i += 1;
        distinct = json!("DISTINCTROW");
    }
    // select list
    let mut items = vec![];
    loop {
        let e = p.parse_expr()?;
        let mut over = J::Null;
        if p.eat_word("OVER") {
            if p.eat(&Tok::LParen) {
                over = json!({"win": window_def(p)?});
                p.expect(&Tok::RParen)?;
            } else {
                over = json!({"name": ident(p)?});
            }
        }
        let alias = if p.eat_word("AS") { json!(ident(p)?) } else { J::Null };
        items.push(json!({"e": pt(&e), "over": over, "alias": alias}));
        if !p.eat(&Tok::Comma) {
            break;
        }
    }
    let mut from = vec![];
    let mut hints = vec![];
    let mut sample = J::Null;
    if p.eat_word("FROM") {
        loop {
            from.push(source(p)?);
            if !p.eat(&Tok::Comma) {
                break;
            }
        }
        // MySQL index hints / Postgres TABLESAMPLE follow a table reference
        while p.is_word("USE") || p.is_word("IGNORE") || p.is_word("FORCE") {
            if p.d != Dialect::Mysql {
                return syn(p, "index hints are MySQL syntax");
            }
            if from.len() != 1 {
                return syn(p, "an index hint belongs to one table reference; it follows a list of several");
            }
            let kind = match p.peek() {
                Some(Tok::Word(w)) => w.to_ascii_uppercase(),
                _ => unreachable!(),
            };
            p.i += 1;
            p.expect_word("INDEX")?;
            let mut scope = "ALL";
            if p.eat_word("FOR") {
                if p.eat_word("JOIN") {
                    scope = "JOIN";
                } else if p.eat_word("ORDER") {
                    p.expect_word("BY")?;
                    scope = "ORDER BY";
                } else if p.eat_word("GROUP") {
                    p.expect_word("BY")?;
                    scope = "GROUP BY";
                } else {
                    return syn(p, "JOIN, ORDER BY or GROUP BY expected");
                }
            }
            p.expect(&Tok::LParen)?;
            let name = ident(p)?;
            p.expect(&Tok::RParen)?;
            hints.push(json!({"kind": kind, "scope": scope, "index": name}));
        }
        if p.is_word("TABLESAMPLE") {
            if p.d != Dialect::Postgres {
                return syn(p, "TABLESAMPLE is Postgres syntax");
            }
            if from.len() != 1 {
                return syn(p, "TABLESAMPLE belongs to one table reference");
            }
            p.i += 1;
            let method = match p.peek() {
                Some(Tok::Word(w)) => w.to_ascii_uppercase(),
                _ => return syn(p, "sampling method expected"),
            };
            p.i += 1;
            p.expect(&Tok::LParen)?;
            let pct = p.parse_expr()?;
            p.expect(&Tok::RParen)?;
            let mut rep = J::Null;
            if p.eat_word("REPEATABLE") {
                p.expect(&Tok::LParen)?;
                rep = pt(&p.parse_expr()?);
                p.expect(&Tok::RParen)?;
            }
            sample = json!({"method": method, "pct": pt(&pct), "repeatable": rep});
        }
    }
    let mut joins = vec![];
    loop {
        let kind = if p.is_word("JOIN") {
            p.i += 1;
            "JOIN"
        } else if p.is_word("INNER") && p.is_word_at(1, "JOIN") {
            p.i += 2;
            "INNER"
        } else if p.is_word("LEFT") && p.is_word_at(1, "JOIN") {
            p.i += 2;
            "LEFT"
        } else if p.is_word("RIGHT") && p.is_word_at(1, "JOIN") {
            p.i += 2;
            "RIGHT"
        } else if p.is_word("FULL") && p.is_word_at(1, "OUTER") && p.is_word_at(2, "JOIN") {
            if p.d == Dialect::Mysql {
                return syn(p, "MySQL has no FULL OUTER JOIN");
            }
            p.i += 3;
            "FULL OUTER"
        } else if p.is_word("CROSS") && p.is_word_at(1, "JOIN") {
            p.i += 2;
            "CROSS"
        } else {
            break;
        };
        let lateral = p.eat_word("LATERAL");
        let src = source(p)?;
        let on = if p.is_word("ON") {
            if kind == "CROSS" && p.d == Dialect::Postgres {
                return syn(p, "Postgres: CROSS JOIN takes no ON condition");
            }
            p.i += 1;
            conj_json(p.parse_expr()?)
        } else {
            J::Null
        };
        joins.push(json!({"kind": kind, "lateral": lateral, "src": src, "on": on}));
    }
    let where_ = if p.eat_word("WHERE") { conj_json(p.parse_expr()?) } else { J::Null };
    let mut groups = vec![];
    if p.eat_word("GROUP") {
        p.expect_word("BY")?;
        groups = expr_list(p)?;
    }
    let having = if p.eat_word("HAVING") { conj_json(p.parse_expr()?) } else { J::Null };
    let mut windows = vec![];
    if p.eat_word("WINDOW") {
        loop {
            let name = ident(p)?;
            p.expect_word("AS")?;
            p.expect(&Tok::LParen)?;
            let w = window_def(p)?;
            p.expect(&Tok::RParen)?;
            windows.push(json!({"name": name, "win": w}));
            if !p.eat(&Tok::Comma) {
                break;
            }
        }
    }
    let mut setops = vec![];
    loop {
        let op = if p.is_word("UNION") {
            p.i += 1;
            if p.eat_word("ALL") {
                "UNION ALL"
            } else {
                "UNION"
            }
        } else if p.eat_word("INTERSECT") {
            "INTERSECT"
        } else if p.eat_word("EXCEPT") {
            "EXCEPT"
        } else {
            break;
        };
        p.expect(&Tok::LParen)?;
        let arm = select(p, true)?;
        p.expect(&Tok::RParen)?;
        setops.push(json!({"op": op, "arm": arm}));
    }
    let mut orders = J::Array(vec![]);
    if p.eat_word("ORDER") {
        p.expect_word("BY")?;
        orders = order_terms(p)?;
    }
    let mut limit = J::Null;
    let mut offset = J::Null;
    if p.eat_word("LIMIT") {
        limit = pt(&p.parse_expr()?);
    }
    if p.is_word("OFFSET") {
        if p.d == Dialect::Mysql && limit.is_null() {
            return syn(p, "MySQL: OFFSET needs LIMIT");
        }
        p.i += 1;
        offset = pt(&p.parse_expr()?);
    }
    let mut lock = J::Null;
    if p.eat_word("FOR") {
        let ty = if p.eat_word("UPDATE") {
            "UPDATE"
        } else if p.eat_word("SHARE") {
            "SHARE"
        } else if p.is_word("NO") && p.is_word_at(1, "KEY") && p.is_word_at(2, "UPDATE") {
            if p.d != Dialect::Postgres {
                return syn(p, "FOR NO KEY UPDATE is Postgres syntax");
            }
            p.i += 3;
            "NO KEY UPDATE"
        } else if p.is_word("KEY") && p.is_word_at(1, "SHARE") {
            if p.d != Dialect::Postgres {
                return syn(p, "FOR KEY SHARE is Postgres syntax");
            }
            p.i += 2;
            "KEY SHARE"
        } else {
            return syn(p, "lock strength expected");
        };
        let mut tables = vec![];
        if p.eat_word("OF") {
            loop {
                tables.push(ident_chain(p)?);
                if !p.eat(&Tok::Comma) {
                    break;
                }
            }
        }
        let behavior = if p.eat_word("NOWAIT") {
            json!("NOWAIT")
        } else if p.is_word("SKIP") {
            p.i += 1;
            p.expect_word("LOCKED")?;
            json!("SKIP LOCKED")
        } else {
            J::Null
        };
        lock = json!({"type": ty, "of": tables, "behavior": behavior});
    }
    Ok(json!({
        "with": with, "distinct": distinct, "items": items, "from": from, "hints": hints, "sample": sample, "joins": joins,
        "where": where_, "groups": groups.iter().map(pt).collect::<Vec<_>>(), "having": having, "windows": windows, "setops": setops,
        "orders": orders, "limit": limit, "offset": offset, "lock": lock
    }))
}

fn returning(p: &mut P) -> PRes<J> {
    if !p.is_word("RETURNING") {
        return Ok(J::Null);
    }
    if p.d == Dialect::Mysql {
        return syn(p, "MySQL has no RETURNING");
    }
    p.i += 1;
    let items = expr_list(p)?;
    Ok(J::Array(items.iter().map(pt).collect()))
}

fn assignments(p: &mut P) -> PRes<J> {
    let mut v = vec![];
    loop {
        let col = ident_chain(p)?;
        if !p.is_op("=") {
            return syn(p, "= expected in assignment");
        }
        p.i += 1;
        // MySQL: c = VALUES(c) refers to the value that would have been inserted
        let e = if p.d == Dialect::Mysql && p.is_word("VALUES") && p.peek_at(1) == Some(&Tok::LParen) {
            p.i += 2;
            let c = ident_chain(p)?;
            p.expect(&Tok::RParen)?;
            PT::Func("VALUES".into(), vec![PT::Id(c)], vec![false])
        } else {
            p.parse_expr()?
        };
        v.push(json!({"col": col, "e": pt(&e)}));
        if !p.eat(&Tok::Comma) {
            break;
        }
    }
    Ok(J::Array(v))
}

pub fn parse_statement(d: Dialect, toks: &[Token]) -> PRes<J> {
    if let Some(c) = toks.iter().find(|t| matches!(t.tok, Tok::Comment(_))) {
        return Err(PErr::Syntax { at: 0, msg: format!("comment in statement: {}", c.tok.show()) });
    }
    let mut p = P::new(d, toks);
    let with = if p.is_word("WITH") && !{
        // a WITH that belongs to a SELECT is parsed by select()
        let mut depth = 0;
        let mut is_select = false;
        for t in toks.iter().skip(1) {
            match &t.tok {
                Tok::LParen => depth += 1,
                Tok::RParen => depth -= 1,
                x if depth == 0 && x.is_word("SELECT") => {
                    is_select = true;
                    break;
                }
                x if depth == 0 && (x.is_word("INSERT") || x.is_word("UPDATE") || x.is_word("DELETE") || x.is_word("REPLACE")) => break,
                _ => {}
            }
        }
        is_select
    } {
        with_clause(&mut p)?
    } else {
        J::Null
    };
    let out = if p.is_word("SELECT") || p.is_word("WITH") {
        let s = select(&mut p, true)?;
        json!({"select": s})
    } else if p.is_word("INSERT") || p.is_word("REPLACE") {
        if d == Dialect::Mysql && !with.is_null() {
            return Err(PErr::Syntax { at: 0, msg: "MySQL: WITH cannot precede INSERT (it belongs to the SELECT part)".into() });
        }
        let replace = p.is_word("REPLACE");
        if replace && d == Dialect::Postgres {
            return syn(&p, "Postgres has no REPLACE");
        }
        p.i += 1;
        p.expect_word("INTO")?;
        let table = ident_chain(&mut p)?;
        let mut cols = J::Null;
        if p.peek() == Some(&Tok::LParen) {
            p.i += 1;
            let mut v = vec![];
            if p.peek() != Some(&Tok::RParen) {
                loop {
                    v.push(ident(&mut p)?);
                    if !p.eat(&Tok::Comma) {
                        break;
                    }
                }
            }
            p.expect(&Tok::RParen)?;
            cols = json!(v);
        }
        let source = if p.eat_word("VALUES") {
            let mut rows = vec![];
            loop {
                p.expect(&Tok::LParen)?;
                if p.eat(&Tok::RParen) {
                    if d != Dialect::Mysql {
                        return syn(&p, "an empty row `()` is MySQL syntax");
                    }
                    rows.push(json!("default-row"));
                } else if p.is_word("DEFAULT") && p.peek_at(1) == Some(&Tok::RParen) {
                    if d != Dialect::Postgres {
                        return syn(&p, "(DEFAULT) rows are Postgres syntax here");
                    }
                    p.i += 2;
                    rows.push(json!("default-row"));
                } else {
                    let cells = expr_list(&mut p)?;
                    p.expect(&Tok::RParen)?;
                    rows.push(J::Array(cells.iter().map(pt).collect()));
                }
                if !p.eat(&Tok::Comma) {
                    break;
                }
            }
            json!({"values": rows})
        } else if p.is_word("SELECT") || p.is_word("WITH") {
            json!({"select": select(&mut p, true)?})
        } else {
            return syn(&p, "VALUES or SELECT expected");
        };
        let mut conflict = J::Null;
        if p.is_word("ON") && p.is_word_at(1, "CONFLICT") {
            if d != Dialect::Postgres {
                return syn(&p, "ON CONFLICT is not MySQL syntax");
            }
            p.i += 2;
            let mut targets = vec![];
            if p.eat(&Tok::LParen) {
                targets = expr_list(&mut p)?;
                p.expect(&Tok::RParen)?;
            }
            let target_where = if p.eat_word("WHERE") { conj_json(p.parse_expr()?) } else { J::Null };
            p.expect_word("DO")?;
            let (action, sets) = if p.eat_word("NOTHING") {
                ("NOTHING", J::Null)
            } else {
                p.expect_word("UPDATE")?;
                p.expect_word("SET")?;
                ("UPDATE", assignments(&mut p)?)
            };
            let action_where = if p.eat_word("WHERE") { conj_json(p.parse_expr()?) } else { J::Null };
            conflict = json!({"targets": targets.iter().map(pt).collect::<Vec<_>>(), "target_where": target_where, "action": action, "set": sets, "action_where": action_where});
        } else if p.is_word("ON") && p.is_word_at(1, "DUPLICATE") {
            if d != Dialect::Mysql {
                return syn(&p, "ON DUPLICATE KEY UPDATE is MySQL syntax");
            }
            p.i += 2;
            p.expect_word("KEY")?;
            if p.eat_word("IGNORE") {
                return syn(&p, "ON DUPLICATE KEY IGNORE is not MySQL syntax");
            }
            p.expect_word("UPDATE")?;
            conflict = json!({"action": "UPDATE", "set": assignments(&mut p)?});
        }
        let ret = returning(&mut p)?;
        json!({"insert": {"with": with, "replace": replace, "table": table, "cols": cols, "source": source, "conflict": conflict, "returning": ret}})
    } else if p.eat_word("UPDATE") {
        let table = ident_chain(&mut p)?;
        let mut join = J::Null;
        if p.is_word("JOIN") {
            if d != Dialect::Mysql {
                return syn(&p, "UPDATE .. JOIN is MySQL syntax");
            }
            p.i += 1;
            let src = source(&mut p)?;
            let on = if p.eat_word("ON") { conj_json(p.parse_expr()?) } else { J::Null };
            join = json!({"src": src, "on": on});
        }
        p.expect_word("SET")?;
        let set = assignments(&mut p)?;
        let mut from = vec![];
        if p.is_word("FROM") {
            if d != Dialect::Postgres {
                return syn(&p, "UPDATE .. FROM is not MySQL syntax");
            }
            p.i += 1;
            loop {
                from.push(source(&mut p)?);
                if !p.eat(&Tok::Comma) {
                    break;
                }
            }
        }
        let where_ = if p.eat_word("WHERE") { conj_json(p.parse_expr()?) } else { J::Null };
        let ret_early = returning(&mut p)?;
        let mut orders = J::Array(vec![]);
        let mut limit = J::Null;
        if p.is_word("ORDER") || p.is_word("LIMIT") {
            if d != Dialect::Mysql {
                return syn(&p, "Postgres: UPDATE takes no ORDER BY / LIMIT");
            }
            if !join.is_null() {
                return syn(&p, "MySQL: a multi-table UPDATE takes no ORDER BY / LIMIT");
            }
            if p.eat_word("ORDER") {
                p.expect_word("BY")?;
                orders = order_terms(&mut p)?;
            }
            if p.eat_word("LIMIT") {
                limit = pt(&p.parse_expr()?);
            }
        }
        json!({"update": {"with": with, "table": table, "join": join, "set": set, "from": from, "where": where_, "orders": orders, "limit": limit, "returning": ret_early}})
    } else if p.eat_word("DELETE") {
        p.expect_word("FROM")?;
        let table = ident_chain(&mut p)?;
        let where_ = if p.eat_word("WHERE") { conj_json(p.parse_expr()?) } else { J::Null };
        let ret = returning(&mut p)?;
        let mut orders = J::Array(vec![]);
        let mut limit = J::Null;
        if p.is_word("ORDER") || p.is_word("LIMIT") {
            if d != Dialect::Mysql {
                return syn(&p, "Postgres: DELETE takes no ORDER BY / LIMIT");
            }
            if p.eat_word("ORDER") {
                p.expect_word("BY")?;
                orders = order_terms(&mut p)?;
            }
            if p.eat_word("LIMIT") {
                limit = pt(&p.parse_expr()?);
            }
        }
        json!({"delete": {"with": with, "table": table, "where": where_, "orders": orders, "limit": limit, "returning": ret}})
    } else {
        return syn(&p, "statement keyword expected");
    };
    if !p.eof() {
        return syn(&p, "tokens left after the statement");
    }
    Ok(out)
}

// ------------------------------------------------------------------------------ expectation

struct X {
    d: Dialect,
    params: bool,
}

impl X {
    fn e(&self, e: &E) -> PT {
        e.expect(self.d, self.params)
    }
    fn ej(&self, e: &E) -> J {
        pt(&self.e(e))
    }
    fn conj(&self, list: &[E]) -> J {
        if list.is_empty() {
            return J::Null;
        }
        let mut out = vec![];
        for e in list {
            conjuncts(self.e(e), &mut out);
        }
        drop_true(&mut out);
        J::Array(out.iter().map(pt).collect())
    }
    fn num(&self, n: u64) -> J {
        if self.params {
            pt(&PT::Param(None))
        } else {
            pt(&PT::Num(n.to_string()))
        }
    }
    fn orders(&self, list: &[OrdSpec]) -> J {
        let mut v = vec![];
        for o in list {
            let x = self.e(&o.e);
            if self.d == Dialect::Mysql {
                if let Some(first) = o.nulls {
                    v.push(json!({"e": pt(&PT::Bin("IS".into(), Box::new(x.clone()), Box::new(PT::Kw("NULL".into())))), "dir": if first { "DESC" } else { "ASC" }, "nulls": J::Null}));
                }
            }
            let nulls = match (self.d, o.nulls) {
                (Dialect::Postgres, Some(true)) => json!("FIRST"),
                (Dialect::Postgres, Some(false)) => json!("LAST"),
                _ => J::Null,
            };
            match &o.dir {
                Dir::Asc => v.push(json!({"e": pt(&x), "dir": "ASC", "nulls": nulls})),
                Dir::Desc => v.push(json!({"e": pt(&x), "dir": "DESC", "nulls": nulls})),
                Dir::Field(vals) => {
                    // CASE WHEN <x>=<v> THEN i ... ELSE n END
                    let whens: Vec<(PT, PT)> = vals
                        .iter()
                        .enumerate()
                        .map(|(i, val)| {
                            let lit = match field_text(*val) {
                                Some(t) => PT::Str(t),
                                None => PT::Num(val.to_string()),
                            };
                            (PT::Bin("=".into(), Box::new(x.clone()), Box::new(lit)), PT::Num(i.to_string()))
                        })
                        .collect();
                    let c = PT::Case(whens, Some(Box::new(PT::Num(vals.len().to_string()))));
                    v.push(json!({"e": pt(&c), "dir": J::Null, "nulls": nulls}));
                }
            }
        }
        J::Array(v)
    }
    fn frame_bound(&self, b: &FrameB) -> J {
        match b {
            FrameB::UnboundedPreceding => json!("UNBOUNDED PRECEDING"),
            FrameB::UnboundedFollowing => json!("UNBOUNDED FOLLOWING"),
            FrameB::CurrentRow => json!("CURRENT ROW"),
            FrameB::Preceding(n) => json!({"preceding": self.num(*n as u64)}),
            FrameB::Following(n) => json!({"following": self.num(*n as u64)}),
        }
    }
    fn window(&self, w: &WinSpec) -> J {
        let frame = match &w.frame {
            None => J::Null,
            Some((rows, s, e)) => json!({"unit": if *rows { "ROWS" } else { "RANGE" }, "start": self.frame_bound(s), "end": e.as_ref().map(|e| self.frame_bound(e)).unwrap_or(J::Null)}),
        };
        json!({"partition": w.partition.iter().map(|e| self.ej(e)).collect::<Vec<_>>(), "orders": self.orders(&w.order), "frame": frame})
    }
    fn source(&self, f: &FromSpec) -> J {
        match f {
            FromSpec::Table(t, a) => json!({"table": [TABLES[*t as usize % 3]], "alias": a.map(|a| json!(QUALS[a as usize % 8])).unwrap_or(J::Null)}),
            FromSpec::Cte(c, a) => json!({"table": [QUALS[6 + *c as usize % 2]], "alias": a.map(|a| json!(QUALS[a as usize % 8])).unwrap_or(J::Null)}),
            FromSpec::Sub(s, a) => json!({"sub": self.select(s), "alias": QUALS[*a as usize % 8]}),
            FromSpec::Values(rows, a) => {
                let rs: Vec<J> = rows
                    .iter()
                    .map(|r| J::Array(r.iter().map(|v| if self.params { pt(&PT::Param(None)) } else { pt(&PT::Num(v.to_string())) }).collect()))
                    .collect();
                json!({"values": rs, "alias": QUALS[*a as usize % 8]})
            }
        }
    }
    fn with(&self, w: &Option<WithSpec>) -> J {
        let Some(w) = w else { return J::Null };
        let ctes: Vec<J> = w
            .ctes
            .iter()
            .map(|c| {
                json!({
                    "name": cte_name(c.name),
                    "cols": c.effective_cols(),
                    "materialized": if self.d == Dialect::Postgres { c.materialized.map(|m| json!(m)).unwrap_or(J::Null) } else { J::Null },
                    "query": self.select(&c.query),
                })
            })
            .collect();
        let pg_rec = self.d == Dialect::Postgres && w.recursive;
        let search = match (&w.search, pg_rec) {
            (Some((breadth, col)), true) => json!({"breadth": breadth, "by": pt(&PT::Id(vec![QCOLS[*col as usize % 5].into()])), "set": "ordcol"}),
            _ => J::Null,
        };
        let cycle = match (&w.cycle, pg_rec) {
            (Some(col), true) => json!({"expr": pt(&PT::Id(vec![QCOLS[*col as usize % 5].into()])), "set": "is_cycle", "using": "path"}),
            _ => J::Null,
        };
        json!({"recursive": w.recursive, "ctes": ctes, "search": search, "cycle": cycle})
    }
    fn select(&self, s: &SelectSpec) -> J {
        let distinct = match &s.distinct {
            Some(Dist::Distinct) => json!("DISTINCT"),
            Some(Dist::DistinctOn(cols)) if self.d == Dialect::Postgres => json!({"on": cols.iter().map(|c| pt(&PT::Id(vec![QCOLS[*c as usize % 5].into()]))).collect::<Vec<_>>()}),
            Some(Dist::DistinctOn(_)) => json!("DISTINCT"),
            _ => J::Null,
        };
        let items: Vec<J> = s
            .items
            .iter()
            .map(|it| {
                let over = match &it.win {
                    None => J::Null,
                    Some(WinRef::Named) => json!({"name": "w"}),
                    Some(WinRef::Inline(w)) => json!({"win": self.window(w)}),
                };
                json!({"e": self.ej(&it.e), "over": over, "alias": it.alias.map(|a| json!(item_alias(a))).unwrap_or(J::Null)})
            })
            .collect();
        let hints: Vec<J> = if self.d == Dialect::Mysql && !s.from.is_empty() {
            s.hints
                .iter()
                .map(|(k, sc)| {
                    let kind = ["USE", "IGNORE", "FORCE"][*k as usize % 3];
                    let scope = ["ALL", "JOIN", "ORDER BY", "GROUP BY"][*sc as usize % 4];
                    let index = ["ix1", "ix2", "ix3"][*k as usize % 3];
                    json!({"kind": kind, "scope": scope, "index": index})
                })
                .collect()
        } else {
            vec![]
        };
        let sample = match (&s.sample, self.d, s.from.is_empty()) {
            (Some((bern, pct, rep)), Dialect::Postgres, false) => {
                json!({"method": if *bern { "BERNOULLI" } else { "SYSTEM" }, "pct": pt(&PT::Num(pct.to_string())), "repeatable": rep.map(|r| pt(&PT::Num(r.to_string()))).unwrap_or(J::Null)})
            }
            _ => J::Null,
        };
        let joins: Vec<J> = s
            .joins
            .iter()
            .map(|j| {
                let kind = match j.kind {
                    JoinKind::Join => "JOIN",
                    JoinKind::Inner => "INNER",
                    JoinKind::Left => "LEFT",
                    JoinKind::Right => "RIGHT",
                    JoinKind::FullOuter => "FULL OUTER",
                    JoinKind::Cross => "CROSS",
                };
                json!({"kind": kind, "lateral": j.lateral, "src": self.source(&j.src), "on": self.conj(std::slice::from_ref(&j.on))})
            })
            .collect();
        let lock = match (&s.lock, self.d) {
            (Some(l), _) => {
                let ty = ["UPDATE", "NO KEY UPDATE", "SHARE", "KEY SHARE"][l.ty as usize % 4];
                let behavior = [J::Null, json!("NOWAIT"), json!("SKIP LOCKED")][l.behavior as usize % 3].clone();
                json!({"type": ty, "of": l.tables.iter().map(|t| vec![TABLES[*t as usize % 3]]).collect::<Vec<_>>(), "behavior": behavior})
            }
            _ => J::Null,
        };
        json!({
            "with": self.with(&s.with),
            "distinct": distinct,
            "items": items,
            "from": s.from.iter().map(|f| self.source(f)).collect::<Vec<_>>(),
            "hints": hints,
            "sample": sample,
            "joins": joins,
            "where": self.conj(&s.wheres),
            "groups": s.groups.iter().map(|g| self.ej(g)).collect::<Vec<_>>(),
            "having": self.conj(&s.havings),
            "windows": s.window.as_ref().map(|w| vec![json!({"name": "w", "win": self.window(w)})]).unwrap_or_default(),
            "setops": s.unions.iter().map(|(u, arm)| json!({"op": match u { Un::Union => "UNION", Un::UnionAll => "UNION ALL", Un::Intersect => "INTERSECT", Un::Except => "EXCEPT" }, "arm": self.select(arm)})).collect::<Vec<_>>(),
            "orders": self.orders(&s.orders),
            "limit": s.limit.map(|l| self.num(l)).unwrap_or(J::Null),
            "offset": s.offset.map(|l| self.num(l)).unwrap_or(J::Null),
            "lock": lock,
        })
    }
    fn returning(&self, r: &Option<Returning>) -> J {
        if self.d == Dialect::Mysql {
            return J::Null;
        }
        match r {
            None => J::Null,
            Some(Returning::All) => json!([pt(&PT::Star(vec![]))]),
            Some(Returning::Cols(c)) => J::Array(c.iter().map(|i| pt(&PT::Id(vec![T3COLS[*i as usize % 6].into()]))).collect()),
            Some(Returning::Exprs(es)) => J::Array(es.iter().map(|e| self.ej(e)).collect()),
        }
    }
}

pub fn expected_statement(s: &Stmt, d: Dialect, params: bool) -> J {
    let x = X { d, params };
    match s {
        Stmt::Select(q) => json!({"select": x.select(q)}),
        Stmt::Insert(i) => {
            let default_form = matches!(i.source, InsertSource::Default(_));
            let source = match &i.source {
                InsertSource::Values(rows) => json!({"values": rows.iter().map(|r| J::Array(r.iter().map(|e| x.ej(e)).collect())).collect::<Vec<_>>()}),
                InsertSource::Select(sel) => json!({"select": x.select(sel)}),
                InsertSource::Default(n) => json!({"values": (0..*n).map(|_| json!("default-row")).collect::<Vec<_>>()}),
            };
            let col = |c: &u8| T3COLS[*c as usize % 6];
            let conflict = match &i.on_conflict {
                None => J::Null,
                Some(c) => {
                    let set = |strategy: &ConflictAction| -> J {
                        match strategy {
                            ConflictAction::UpdateColumns(cols) => J::Array(
                                cols.iter()
                                    .map(|cc| {
                                        let rhs = if d == Dialect::Mysql {
                                            PT::Func("VALUES".into(), vec![PT::Id(vec![col(cc).into()])], vec![false])
                                        } else {
                                            PT::Id(vec!["excluded".into(), col(cc).into()])
                                        };
                                        json!({"col": [col(cc)], "e": pt(&rhs)})
                                    })
                                    .collect(),
                            ),
                            ConflictAction::UpdateValues(vals) => J::Array(vals.iter().map(|(cc, e)| json!({"col": [col(cc)], "e": x.ej(e)})).collect()),
                            ConflictAction::DoNothingOn(keys) => J::Array(keys.iter().map(|cc| json!({"col": [col(cc)], "e": pt(&PT::Id(vec![col(cc).into()]))})).collect()),
                            ConflictAction::DoNothing => J::Null,
                        }
                    };
                    if d == Dialect::Mysql {
                        json!({"action": "UPDATE", "set": set(&c.action)})
                    } else {
                        json!({
                            "targets": c.targets.iter().map(|t| pt(&PT::Id(vec![col(t).into()]))).collect::<Vec<_>>(),
                            "target_where": c.target_where.as_ref().map(|w| x.conj(std::slice::from_ref(w))).unwrap_or(J::Null),
                            "action": if matches!(c.action, ConflictAction::DoNothing | ConflictAction::DoNothingOn(_)) { "NOTHING" } else { "UPDATE" },
                            "set": set(&c.action),
                            "action_where": c.action_where.as_ref().map(|w| x.conj(std::slice::from_ref(w))).unwrap_or(J::Null),
                        })
                    }
                }
            };
            json!({"insert": {
                "with": x.with(&i.with),
                "replace": i.replace,
                "table": [TABLES[i.table as usize % 3]],
                "cols": if default_form { J::Null } else { json!(i.columns.iter().map(col).collect::<Vec<_>>()) },
                "source": source,
                "conflict": conflict,
                "returning": x.returning(&i.returning),
            }})
        }
        Stmt::Update(u) => {
            let mysql_join = d == Dialect::Mysql && !u.from.is_empty();
            let tname = TABLES[u.table as usize % 3];
            let set: Vec<J> = u
                .sets
                .iter()
                .map(|(c, e)| {
                    let col: Vec<&str> = if mysql_join { vec![tname, T3COLS[*c as usize % 6]] } else { vec![T3COLS[*c as usize % 6]] };
                    json!({"col": col, "e": x.ej(e)})
                })
                .collect();
            json!({"update": {
                "with": x.with(&u.with),
                "table": [tname],
                "join": if mysql_join { json!({"src": x.source(&u.from[0]), "on": x.conj(&u.wheres)}) } else { J::Null },
                "set": set,
                "from": if d == Dialect::Postgres { u.from.iter().map(|f| x.source(f)).collect::<Vec<_>>() } else { vec![] },
                "where": if mysql_join { J::Null } else { x.conj(&u.wheres) },
                "orders": x.orders(&u.orders),
                "limit": u.limit.map(|l| x.num(l)).unwrap_or(J::Null),
                "returning": x.returning(&u.returning),
            }})
        }
        Stmt::Delete(q) => json!({"delete": {
            "with": x.with(&q.with),
            "table": [TABLES[q.table as usize % 3]],
            "where": x.conj(&q.wheres),
            "orders": x.orders(&q.orders),
            "limit": q.limit.map(|l| x.num(l)).unwrap_or(J::Null),
            "returning": x.returning(&q.returning),
        }}),
    }
}

/// first path at which two inventories differ
pub fn first_difference(a: &J, b: &J, path: &str) -> Option<(String, String, String)> {
    match (a, b) {
        (J::Object(x), J::Object(y)) => {
            let mut keys: Vec<&String> = x.keys().chain(y.keys()).collect();
            keys.sort();
            keys.dedup();
            for k in keys {
                match (x.get(k), y.get(k)) {
                    (Some(u), Some(v)) => {
                        if let Some(d) = first_difference(u, v, &format!("{path}/{k}")) {
                            return Some(d);
                        }
                    }
                    (u, v) => return Some((format!("{path}/{k}"), format!("{u:?}"), format!("{v:?}"))),
                }
            }
            None
        }
        (J::Array(x), J::Array(y)) => {
            for (i, (u, v)) in x.iter().zip(y.iter()).enumerate() {
                if let Some(d) = first_difference(u, v, &format!("{path}/{i}")) {
                    return Some(d);
                }
            }
            if x.len() != y.len() {
                return Some((format!("{path}/len"), x.len().to_string(), y.len().to_string()));
            }
            None
        }
        (u, v) => {
            if u == v {
                None
            } else {
                Some((path.to_string(), u.to_string(), v.to_string()))
            }
        }
    }
}
