//! Coverage-guided campaigns (cargo-fuzz / libFuzzer) through the same generators and oracles as the checks.
//!
//! One fuzz binary (`/verif/fuzz`, target `multi`) serves every campaign; `SQV_FUZZ_TARGET` names the entry of
//! `TARGETS` to drive. The bytes are decoded "raw": they are the input text itself (tokenizer input, string to
//! escape, text value to inline, identifier), with one or two leading selector bytes where a backend / position
//! has to be chosen. These are the checks whose domain *is* text, which is where byte-level mutation is at home.
//!
//! Driving the structured generators (statement / expression specs) from the fuzzer's bytes through proptest's
//! `RngAlgorithm::PassThrough` was tried and does not work: every `prop_oneof!` keeps lazily-built alternatives
//! for shrinking and forks the runner's RNG for each of them, a fork of a pass-through RNG hands *half of the
//! remaining bytes* to the child, so a statement spec exhausts any finite input after a few dozen choices, and on
//! the zero stream that follows rand's rejection sampling never terminates. Those checks stay with seeded random
//! generation (DESIGN.md 9.6).
//! A failure that is not a listed known finding is written as an ordinary replay file (reproducible with
//! `./check <ID> --replay <file>` without libFuzzer) and the process aborts, which makes libFuzzer keep the input.
//! Counters are written to `SQV_FUZZ_STATS` at exit and every 50 000 executions.

use crate::props::*;
use crate::runner::{fingerprint, load_known, Known, Obs, Stop, R};
use crate::util::{Dialect, DIALECTS};
use serde::Serialize;
use serde_json::{json, Value as J};
use std::collections::{BTreeMap, BTreeSet};
use std::sync::Mutex;

pub struct Outcome {
    pub case: J,
    pub result: R,
    pub obs: Obs,
}

pub struct Target {
    pub name: &'static str,
    pub prop: &'static str,
    pub part: &'static str,
    pub decoding: &'static str,
    pub run: fn(&[u8]) -> Option<Outcome>,
}

fn out<C: Serialize>(c: &C, f: impl FnOnce(&mut Obs) -> R) -> Option<Outcome> {
    let mut obs = Obs::default();
    let result = match std::panic::catch_unwind(std::panic::AssertUnwindSafe(|| f(&mut obs))) {
        Ok(r) => r,
        Err(p) => Err(Stop::Fail { sig: "panic/check".into(), detail: crate::runner::panic_message(p) }),
    };
    Some(Outcome { case: serde_json::to_value(c).ok()?, result, obs })
}

fn text_of(data: &[u8]) -> String {
    String::from_utf8_lossy(data).to_string()
}

pub static TARGETS: &[Target] = &[
    Target {
        name: "tok",
        prop: "C16",
        part: "fuzz",
        decoding: "raw: the bytes (lossy UTF-8) are the tokenizer input",
        run: |data| {
            let c = c16::Case::Raw(text_of(data));
            out(&c, |obs| c16::check(&c, obs))
        },
    },
    Target {
        name: "esc",
        prop: "C17",
        part: "fuzz",
        decoding: "raw: the bytes (lossy UTF-8) are the string to escape and unescape",
        run: |data| {
            let c = c17::Case { s: text_of(data) };
            out(&c, |obs| c17::check(&c, obs))
        },
    },
    Target {
        name: "lit",
        prop: "C03",
        part: "fuzz",
        decoding: "raw: byte 0 selects the backend, byte 1 the position, the rest (lossy UTF-8) is the text value",
        run: |data| {
            if data.len() < 2 {
                return None;
            }
            let d: Dialect = DIALECTS[(data[0] % 3) as usize];
            let mut text = text_of(&data[2..]);
            if d != Dialect::Mysql {
                text = text.replace('\0', "0");
            }
            let payload = c03::Payload::Text(text);
            let poss: Vec<c03::Pos> = c03::ALL_POS.iter().copied().filter(|p| c03::applicable(*p, d, &payload)).collect();
            let c = c03::Case { pos: poss[data[1] as usize % poss.len()], dialect: d, payload };
            out(&c, |obs| c03::check(&c, obs))
        },
    },
    Target {
        name: "ident",
        prop: "C04",
        part: "fuzz",
        decoding: "raw: byte 0 selects the backend, byte 1 the identifier position, the rest (lossy UTF-8, NUL removed) is the name",
        run: |data| {
            if data.len() < 3 {
                return None;
            }
            let d: Dialect = DIALECTS[(data[0] % 3) as usize];
            let name: String = text_of(&data[2..]).chars().filter(|c| *c != '\0').take(64).collect();
            if name.is_empty() {
                return None;
            }
            let poss: Vec<c04::Pos> = c04::ALL_POS.iter().copied().filter(|p| c04::applicable(*p, d)).collect();
            let c = c04::Case { pos: poss[data[1] as usize % poss.len()], dialect: d, name };
            out(&c, |obs| c04::check(&c, obs))
        },
    },
    Target {
        name: "tmpl",
        prop: "C11",
        part: "fuzz",
        decoding: "structured: bytes 0..2 select backend / API / leading value, every following group of bytes is one template segment (word, operator, whitespace, quoted text with its pieces, placeholder, doubled mark, foreign mark, $name); the check's own normalisation then puts the list into its sound domain",
        run: |data| {
            let c = decode_template(data)?;
            out(&c, |obs| c11::check(&c, obs))
        },
    },
];

/// bytes -> template case (hand-written decoder; see the `tmpl` target)
fn decode_template(data: &[u8]) -> Option<c11::Case> {
    use c11::{Api, Arg, Seg, TCase, V};
    use c16::Piece;
    if data.len() < 4 {
        return None;
    }
    let dialect = DIALECTS[(data[0] % 3) as usize];
    let api = [Api::Values, Api::Expr, Api::Exprs][(data[1] % 3) as usize];
    let lead = if data[2] % 4 == 0 { Some((data[2] / 4) as i64) } else { None };
    const WORD: [char; 8] = ['a', 'b', '1', '_', '$', 'é', '9', 'Z'];
    const OPS: [char; 12] = ['=', '<', '+', '-', '(', ')', ',', '.', ':', '|', ']', '@'];
    const BODY: [char; 8] = ['?', '$', '1', ' ', 'a', '\'', '"', '`'];
    let mut i = 3;
    let next = |i: &mut usize| -> u8 {
        let b = data.get(*i).copied().unwrap_or(0);
        *i += 1;
        b
    };
    let mut segs = vec![];
    while i < data.len() && segs.len() < 14 {
        let k = next(&mut i);
        let seg = match k % 8 {
            0 => {
                let n = 1 + (k / 8) % 4;
                Seg::Word((0..n).map(|_| WORD[(next(&mut i) % 8) as usize]).collect())
            }
            1 => {
                let n = 1 + (k / 8) % 2;
                Seg::Op((0..n).map(|_| OPS[(next(&mut i) % 12) as usize]).collect())
            }
            2 => Seg::Ws([" ", "  ", "\t", "\n"][((k / 8) % 4) as usize].to_string()),
            3 => {
                let delim = ['\'', '"', '`', '['][((k / 8) % 4) as usize];
                let n = next(&mut i) % 6;
                let body = (0..n)
                    .map(|_| {
                        let b = next(&mut i);
                        match b % 8 {
                            5 => Piece::Doubled,
                            6 => Piece::Esc(if delim == '[' { ']' } else { delim }),
                            7 => Piece::Esc('\\'),
                            x => Piece::Ch(BODY[((x as usize) + (b as usize / 8)) % 8]),
                        }
                    })
                    .collect();
                Seg::Quoted { delim, body }
            }
            4 | 5 => Seg::Ph(k / 8),
            6 => Seg::Doubled,
            _ => {
                if (k / 8) % 2 == 0 {
                    Seg::OtherMark(k / 16)
                } else {
                    let n = 1 + (k / 16) % 3;
                    Seg::MarkWord((0..n).map(|_| WORD[(next(&mut i) % 8) as usize]).collect())
                }
            }
        };
        segs.push(seg);
    }
    let args = vec![Arg::Val(V::Int(7)), Arg::Col(1), Arg::EnumCast(V::Int(3)), Arg::Val(V::Text("v?$1'".into()))];
    Some(c11::Case::Tmpl(TCase { dialect, api, lead, segs, args }))
}

pub fn target(name: &str) -> Option<&'static Target> {
    TARGETS.iter().find(|t| t.name == name)
}

#[derive(Default)]
struct Counters {
    executions: u64,
    decoded: u64,
    passed: u64,
    nontrivial: BTreeSet<u64>,
    labels: BTreeMap<String, u64>,
    discarded: BTreeMap<String, u64>,
    undecided: BTreeMap<String, u64>,
    excluded_known: BTreeMap<String, u64>,
    samples: Vec<J>,
    known: Option<Vec<Known>>,
}

static COUNTERS: Mutex<Option<Counters>> = Mutex::new(None);

extern "C" {
    fn atexit(cb: extern "C" fn()) -> i32;
}

extern "C" fn dump_at_exit() {
    dump();
}

fn dump() {
    let Ok(path) = std::env::var("SQV_FUZZ_STATS") else { return };
    let g = COUNTERS.lock().unwrap_or_else(|e| e.into_inner());
    let Some(c) = g.as_ref() else { return };
    let body = json!({
        "executions": c.executions, "decoded": c.decoded, "passed": c.passed, "distinct_nontrivial": c.nontrivial.len(),
        "labels": c.labels, "discarded": c.discarded, "undecided": c.undecided, "excluded_known": c.excluded_known, "samples": c.samples,
    });
    let _ = std::fs::write(&path, serde_json::to_string(&body).unwrap_or_default());
}

fn root() -> std::path::PathBuf {
    std::path::PathBuf::from(std::env::var("SQV_ROOT").unwrap_or_else(|_| "/verif".to_string()))
}

/// one libFuzzer execution
pub fn fuzz_one(t: &Target, data: &[u8]) {
    {
        let mut g = COUNTERS.lock().unwrap_or_else(|e| e.into_inner());
        if g.is_none() {
            // sea-query's documented panics are verdicts of the checks, not crashes: unwind quietly
            std::panic::set_hook(Box::new(|_| {}));
            unsafe {
                atexit(dump_at_exit);
            }
            *g = Some(Counters { known: Some(load_known(&root(), t.prop)), ..Counters::default() });
        }
        g.as_mut().unwrap().executions += 1;
    }
    let o = (t.run)(data);
    let mut g = COUNTERS.lock().unwrap_or_else(|e| e.into_inner());
    let c = g.as_mut().unwrap();
    let Some(o) = o else { return };
    c.decoded += 1;
    for l in &o.obs.labels {
        *c.labels.entry(l.clone()).or_default() += 1;
    }
    for u in &o.obs.undecided {
        *c.undecided.entry(u.clone()).or_default() += 1;
    }
    match o.result {
        Ok(()) => {
            c.passed += 1;
            let before = c.nontrivial.len();
            c.nontrivial.extend(o.obs.nontrivial.iter().copied());
            if c.nontrivial.len() > before && c.samples.len() < 8 && (c.nontrivial.len() as u64).is_power_of_two() {
                c.samples.push(json!({"case": o.case, "note": o.obs.note}));
            }
        }
        Err(Stop::Discard(w)) => *c.discarded.entry(w).or_default() += 1,
        Err(Stop::Undecided(w)) => *c.undecided.entry(w).or_default() += 1,
        Err(Stop::Fail { sig, detail }) => {
            if c.known.as_ref().map(|k| k.iter().any(|k| k.key == sig)).unwrap_or(false) {
                *c.excluded_known.entry(sig).or_default() += 1;
            } else {
                let body = json!({"property": t.prop, "part": t.part, "signature": sig, "detail": detail, "case": o.case, "found_by": format!("fuzz target {}", t.name)});
                let h = fingerprint(&(sig.as_str(), body["case"].to_string()));
                let file = root().join(format!("replays/{}-fuzz-{h:016x}.json", t.prop));
                let _ = std::fs::create_dir_all(root().join("replays"));
                let _ = std::fs::write(&file, serde_json::to_string_pretty(&body).unwrap_or_default());
                println!("VIOLATION property={} replay={}", t.prop, file.display());
                eprintln!("signature={sig}\n{detail}");
                drop(g);
                dump();
                std::process::abort();
            }
        }
    }
    if c.executions % 50_000 == 0 {
        drop(g);
        dump();
    }
}
