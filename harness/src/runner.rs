//! Seeding, sharding, counters, evidence, replay files and known findings.
//!
//! Contract (DESIGN.md 2.3): a run is a pure function of /repo, VERIF_SEED and the tier; work is
//! fixed by case count; exit 0 = held, 1 = unknown violation (VIOLATION line), 2 = inconclusive.

use proptest::strategy::{Strategy, ValueTree};
use proptest::test_runner::{Config, RngSeed, TestCaseError, TestError, TestRunner};
use serde::de::DeserializeOwned;
use serde::Serialize;
use serde_json::{json, Value as J};
use std::collections::{BTreeMap, BTreeSet};
use std::fmt::Debug;
use std::hash::{Hash, Hasher};
use std::panic::{catch_unwind, AssertUnwindSafe};
use std::path::{Path, PathBuf};
use std::sync::Mutex;
use std::time::Instant;

pub const SHARDS: usize = 16;

#[derive(Clone, Copy, PartialEq, Eq, Debug)]
pub enum Tier {
    Quick,
    Thorough,
}

impl Tier {
    pub fn name(self) -> &'static str {
        match self {
            Tier::Quick => "quick",
            Tier::Thorough => "thorough",
        }
    }
    /// pick the work size for this tier
    pub fn pick<T>(self, quick: T, thorough: T) -> T {
        match self {
            Tier::Quick => quick,
            Tier::Thorough => thorough,
        }
    }
}

/// Why a case did not simply pass.
#[derive(Debug, Clone)]
pub enum Stop {
    /// the property is violated; `sig` identifies the root cause class, `detail` is for humans
    Fail { sig: String, detail: String },
    /// the generated case is outside the property's domain (generator health)
    Discard(String),
    /// the oracle cannot decide this case (counted, never reported)
    Undecided(String),
}

pub type R = Result<(), Stop>;

pub fn fail<T>(sig: impl Into<String>, detail: impl Into<String>) -> Result<T, Stop> {
    Err(Stop::Fail { sig: sig.into(), detail: detail.into() })
}
pub fn discard<T>(why: impl Into<String>) -> Result<T, Stop> {
    Err(Stop::Discard(why.into()))
}
pub fn undecided<T>(why: impl Into<String>) -> Result<T, Stop> {
    Err(Stop::Undecided(why.into()))
}

/// Observations a check makes about one case.
#[derive(Default, Debug)]
pub struct Obs {
    pub labels: Vec<String>,
    pub nontrivial: Vec<u64>,
    pub note: Option<String>,
    pub undecided: Vec<String>,
    /// strict replay mode: known-finding tolerance inside multi-part cases is off
    pub strict: bool,
}

impl Obs {
    pub fn label(&mut self, l: impl Into<String>) {
        self.labels.push(l.into());
    }
    /// record that this case is non-trivial by the property's rule; `fp` makes it distinct
    pub fn nontrivial<H: Hash + ?Sized>(&mut self, fp: &H) {
        self.nontrivial.push(fingerprint(fp));
    }
    pub fn note(&mut self, s: impl Into<String>) {
        if self.note.is_none() {
            self.note = Some(s.into());
        }
    }
    pub fn undecided(&mut self, why: impl Into<String>) {
        self.undecided.push(why.into());
    }
}

pub fn fingerprint<H: Hash + ?Sized>(x: &H) -> u64 {
    // DefaultHasher::new() is SipHash-1-3 with fixed zero keys: deterministic across runs.
    #[allow(deprecated)]
    let mut h = std::hash::SipHasher::new_with_keys(0x5eed, 0x5ea);
    x.hash(&mut h);
    h.finish()
}

pub fn mix(seed: u64, prop: &str, part: &str, shard: u64) -> u64 {
    fingerprint(&(seed, prop, part, shard))
}

#[derive(Debug, Clone)]
pub struct Failure {
    pub part: String,
    pub sig: String,
    pub detail: String,
    pub case: J,
}

#[derive(Default, Debug)]
pub struct Stats {
    pub evaluations: u64,
    pub nontrivial: BTreeSet<u64>,
    pub labels: BTreeMap<String, u64>,
    pub discarded: BTreeMap<String, u64>,
    pub undecided: BTreeMap<String, u64>,
    pub excluded_known: BTreeMap<String, u64>,
    pub samples: Vec<J>,
    pub failures: Vec<Failure>,
    nt_seen: u64,
}

impl Stats {
    fn merge(&mut self, o: Stats) {
        self.evaluations += o.evaluations;
        self.nontrivial.extend(o.nontrivial);
        for (k, v) in o.labels {
            *self.labels.entry(k).or_default() += v;
        }
        for (k, v) in o.discarded {
            *self.discarded.entry(k).or_default() += v;
        }
        for (k, v) in o.undecided {
            *self.undecided.entry(k).or_default() += v;
        }
        for (k, v) in o.excluded_known {
            *self.excluded_known.entry(k).or_default() += v;
        }
        self.samples.extend(o.samples);
        self.failures.extend(o.failures);
    }
}

#[derive(Debug, Clone)]
pub struct Known {
    pub key: String,
    pub replay: String,
    pub what: String,
}

pub struct PartReport {
    pub name: String,
    pub kind: &'static str,
    pub stats: Stats,
    pub exhaustive: bool,
    pub planned: u64,
}

pub struct Ctx {
    pub prop: String,
    pub tier: Tier,
    pub seed: u64,
    pub root: PathBuf,
    pub config: String,
    pub known: Vec<Known>,
    pub parts: Vec<PartReport>,
    pub rule: String,
    pub assumptions: Vec<String>,
    pub domain_restrictions: Vec<String>,
    pub extra: BTreeMap<String, J>,
    pub inconclusive: Vec<String>,
    pub started: Instant,
    pub max_failures_per_part: usize,
}

pub fn panic_message(p: Box<dyn std::any::Any + Send>) -> String {
    if let Some(s) = p.downcast_ref::<&str>() {
        s.to_string()
    } else if let Some(s) = p.downcast_ref::<String>() {
        s.clone()
    } else {
        "<non-string panic>".to_string()
    }
}

/// Run a closure that calls into sea-query; a panic becomes a `Stop::Fail` with a panic signature.
pub fn guard<T>(what: &str, f: impl FnOnce() -> T) -> Result<T, Stop> {
    match catch_unwind(AssertUnwindSafe(f)) {
        Ok(v) => Ok(v),
        Err(p) => {
            let m = panic_message(p);
            let short: String = m.chars().take(60).collect();
            fail(format!("panic/{what}/{}", sig_clean(&short)), format!("panic in {what}: {m}"))
        }
    }
}

pub fn sig_clean(s: &str) -> String {
    s.chars()
        .map(|c| if c.is_ascii_alphanumeric() || "-_/.:".contains(c) { c } else { '_' })
        .collect()
}

fn run_check<C>(check: &(dyn Fn(&C, &mut Obs) -> R + Sync), c: &C, obs: &mut Obs) -> R {
    match catch_unwind(AssertUnwindSafe(|| check(c, obs))) {
        Ok(r) => r,
        Err(p) => {
            let m = panic_message(p);
            let short: String = m.chars().take(60).collect();
            fail(format!("panic/{}", sig_clean(&short)), format!("panic: {m}"))
        }
    }
}

fn sample_slot(n: u64) -> bool {
    // 1st, 4th, 16th, 64th ... non-trivial case of a shard
    n > 0 && (n & (n - 1)) == 0 && n.trailing_zeros() % 2 == 0
}

impl Ctx {
    pub fn new(prop: &str, tier: Tier, seed: u64, root: PathBuf, config: &str) -> Ctx {
        let known = load_known(&root, prop);
        Ctx {
            prop: prop.to_string(),
            tier,
            seed,
            root,
            config: config.to_string(),
            known,
            parts: vec![],
            rule: String::new(),
            assumptions: vec![],
            domain_restrictions: vec![],
            extra: BTreeMap::new(),
            inconclusive: vec![],
            started: Instant::now(),
            max_failures_per_part: 3,
        }
    }

    pub fn is_known(&self, sig: &str) -> bool {
        self.known.iter().any(|k| k.key == sig)
    }

    fn account<C: Serialize>(&self, st: &mut Stats, c: &C, obs: Obs, r: &R) -> Option<(String, String)> {
        st.evaluations += 1;
        for l in obs.labels {
            *st.labels.entry(l).or_default() += 1;
        }
        for u in obs.undecided {
            *st.undecided.entry(u).or_default() += 1;
        }
        match r {
            Ok(()) => {
                if !obs.nontrivial.is_empty() {
                    let mut fresh = false;
                    for fp in obs.nontrivial {
                        fresh |= st.nontrivial.insert(fp);
                    }
                    if fresh {
                        st.nt_seen += 1;
                        if sample_slot(st.nt_seen) && st.samples.len() < 6 {
                            let mut s = json!({ "case": serde_json::to_value(c).unwrap_or(J::Null) });
                            if let Some(n) = obs.note {
                                s["note"] = J::String(n);
                            }
                            st.samples.push(s);
                        }
                    }
                }
                None
            }
            Err(Stop::Discard(w)) => {
                *st.discarded.entry(w.clone()).or_default() += 1;
                None
            }
            Err(Stop::Undecided(w)) => {
                *st.undecided.entry(w.clone()).or_default() += 1;
                None
            }
            Err(Stop::Fail { sig, detail }) => {
                if self.is_known(sig) {
                    if std::env::var("SQV_DEBUG_KNOWN").is_ok() && st.excluded_known.get(sig).copied().unwrap_or(0) < 2 {
                        eprintln!("excluded-known {sig}: {detail}");
                    }
                    *st.excluded_known.entry(sig.clone()).or_default() += 1;
                    None
                } else {
                    Some((sig.clone(), detail.clone()))
                }
            }
        }
    }

    /// Random search with proptest: `mk` builds the strategy (once per shard), `cases` is the total
    /// number of generated cases over all shards.
    pub fn run_proptest<C, S>(
        &mut self,
        part: &str,
        cases: u64,
        mk: &(dyn Fn() -> S + Sync),
        check: &(dyn Fn(&C, &mut Obs) -> R + Sync),
    ) where
        C: Debug + Clone + Serialize + Send,
        S: Strategy<Value = C>,
    {
        let per_shard = ((cases + SHARDS as u64 - 1) / SHARDS as u64).max(1);
        let merged = Mutex::new(Vec::<(usize, Stats)>::new());
        let this = &*self;
        std::thread::scope(|sc| {
            for shard in 0..SHARDS {
                let merged = &merged;
                std::thread::Builder::new()
                    .stack_size(256 << 20)
                    .spawn_scoped(sc, move || {
                        let mut cfg = Config::default();
                        cfg.cases = per_shard as u32;
                        cfg.failure_persistence = None;
                        cfg.rng_seed = RngSeed::Fixed(mix(this.seed, &this.prop, part, shard as u64));
                        cfg.max_shrink_iters = 4000;
                        cfg.max_global_rejects = 1 << 30;
                        cfg.verbose = 0;
                        let mut runner = TestRunner::new(cfg);
                        let strat = mk();
                        let failed = std::cell::Cell::new(false);
                        let st_cell = std::cell::RefCell::new(Stats::default());
                        let res = {
                            let st = &st_cell;
                            let failed = &failed;
                            runner.run(&strat, |c| {
                                let mut obs = Obs::default();
                                let r = run_check(check, &c, &mut obs);
                                if failed.get() {
                                    // shrinking phase: no counting; keep only unknown failures alive
                                    return match r {
                                        Err(Stop::Fail { sig, .. }) if !this.is_known(&sig) => {
                                            Err(TestCaseError::fail(sig))
                                        }
                                        _ => Ok(()),
                                    };
                                }
                                match this.account(&mut st.borrow_mut(), &c, obs, &r) {
                                    None => Ok(()),
                                    Some((sig, _)) => {
                                        failed.set(true);
                                        Err(TestCaseError::fail(sig))
                                    }
                                }
                            })
                        };
                        let mut st = st_cell.into_inner();
                        match res {
                            Ok(()) => {}
                            Err(TestError::Fail(_, shrunk)) => {
                                let mut obs = Obs::default();
                                let r = run_check(check, &shrunk, &mut obs);
                                let (sig, detail) = match r {
                                    Err(Stop::Fail { sig, detail }) => (sig, detail),
                                    other => ("unstable".to_string(), format!("shrunk case no longer fails: {other:?}")),
                                };
                                st.failures.push(Failure {
                                    part: part.to_string(),
                                    sig,
                                    detail,
                                    case: serde_json::to_value(&shrunk).unwrap_or(J::Null),
                                });
                            }
                            Err(TestError::Abort(why)) => {
                                *st.discarded.entry(format!("proptest-abort: {why}")).or_default() += 1;
                            }
                        }
                        merged.lock().unwrap().push((shard, st));
                    })
                    .unwrap();
            }
        });
        let mut v = merged.into_inner().unwrap();
        v.sort_by_key(|x| x.0);
        let mut total = Stats::default();
        for (_, st) in v {
            total.merge(st);
        }
        self.push_part(part, "proptest", total, false, per_shard * SHARDS as u64);
    }

    /// Bounded-exhaustive enumeration: case i = `nth(i)` for i in 0..total, smallest first.
    pub fn run_indexed<C>(
        &mut self,
        part: &str,
        total: u64,
        nth: &(dyn Fn(u64) -> C + Sync),
        check: &(dyn Fn(&C, &mut Obs) -> R + Sync),
    ) where
        C: Debug + Clone + Serialize + Send,
    {
        let merged = Mutex::new(Vec::<(usize, Stats)>::new());
        let this = &*self;
        let maxf = self.max_failures_per_part;
        std::thread::scope(|sc| {
            for shard in 0..SHARDS {
                let merged = &merged;
                std::thread::Builder::new()
                    .stack_size(256 << 20)
                    .spawn_scoped(sc, move || {
                        let mut st = Stats::default();
                        let mut sigs = BTreeSet::new();
                        // interleaved so that every shard sees small cases first
                        let mut i = shard as u64;
                        while i < total {
                            let c = nth(i);
                            let mut obs = Obs::default();
                            let r = run_check(check, &c, &mut obs);
                            if let Some((sig, detail)) = this.account(&mut st, &c, obs, &r) {
                                if sigs.insert(sig.clone()) && sigs.len() <= maxf {
                                    st.failures.push(Failure {
                                        part: part.to_string(),
                                        sig,
                                        detail,
                                        case: json!({"index": i, "case": serde_json::to_value(&c).unwrap_or(J::Null)}),
                                    });
                                }
                            }
                            i += SHARDS as u64;
                        }
                        merged.lock().unwrap().push((shard, st));
                    })
                    .unwrap();
            }
        });
        let mut v = merged.into_inner().unwrap();
        v.sort_by_key(|x| x.0);
        let mut total_st = Stats::default();
        for (_, st) in v {
            total_st.merge(st);
        }
        // keep the smallest-index failure per signature
        let mut best: BTreeMap<String, Failure> = BTreeMap::new();
        for f in std::mem::take(&mut total_st.failures) {
            let idx = f.case["index"].as_u64().unwrap_or(u64::MAX);
            match best.get(&f.sig) {
                Some(b) if b.case["index"].as_u64().unwrap_or(u64::MAX) <= idx => {}
                _ => {
                    best.insert(f.sig.clone(), f);
                }
            }
        }
        total_st.failures = best
            .into_values()
            .map(|mut f| {
                f.case = f.case["case"].clone();
                f
            })
            .collect();
        self.push_part(part, "exhaustive", total_st, true, total);
    }

    /// A fixed list of cases (hand-picked corners, scraped corpora, ...).
    pub fn run_list<C>(&mut self, part: &str, cases: &[C], check: &(dyn Fn(&C, &mut Obs) -> R + Sync))
    where
        C: Debug + Clone + Serialize + Send + Sync,
    {
        let n = cases.len() as u64;
        self.run_indexed(part, n, &|i| cases[i as usize].clone(), check);
        if let Some(p) = self.parts.last_mut() {
            p.kind = "list";
            p.exhaustive = false;
        }
    }

    fn push_part(&mut self, part: &str, kind: &'static str, stats: Stats, exhaustive: bool, planned: u64) {
        self.parts.push(PartReport { name: part.to_string(), kind, stats, exhaustive, planned });
    }

    pub fn note_inconclusive(&mut self, why: impl Into<String>) {
        self.inconclusive.push(why.into());
    }

    /// Replay committed cases (regress = must pass; known = expected to fail with their key).
    pub fn replay_committed(&mut self, replay: &dyn Fn(&str, &J, &mut Obs) -> R) -> (Vec<Failure>, Vec<String>) {
        let mut fails = vec![];
        let mut lines = vec![];
        let dir = self.root.join("replays/regress");
        let mut n_regress = 0u64;
        if let Ok(rd) = std::fs::read_dir(&dir) {
            let mut files: Vec<PathBuf> = rd.filter_map(|e| e.ok().map(|e| e.path())).collect();
            files.sort();
            for f in files {
                let name = f.file_name().unwrap().to_string_lossy().to_string();
                if !name.starts_with(&format!("{}-", self.prop)) || !name.ends_with(".json") {
                    continue;
                }
                let Ok((part, case)) = read_replay(&f) else { continue };
                n_regress += 1;
                let mut obs = Obs::default();
                obs.strict = true;
                let r = match catch_unwind(AssertUnwindSafe(|| replay(&part, &case, &mut obs))) {
                    Ok(r) => r,
                    Err(p) => fail("panic/replay", panic_message(p)),
                };
                if let Err(Stop::Fail { sig, detail }) = r {
                    if !self.is_known(&sig) {
                        fails.push(Failure { part, sig, detail: format!("regression case {name}: {detail}"), case });
                    }
                }
            }
        }
        self.extra.insert("regress_cases_replayed".into(), json!(n_regress));
        for k in self.known.clone() {
            let p = self.root.join(&k.replay);
            match read_replay(&p) {
                Ok((part, case)) => {
                    let mut obs = Obs::default();
                    obs.strict = true;
                    let r = match catch_unwind(AssertUnwindSafe(|| replay(&part, &case, &mut obs))) {
                        Ok(r) => r,
                        Err(p) => fail("panic/replay", panic_message(p)),
                    };
                    match r {
                        Err(Stop::Fail { sig, .. }) if sig == k.key => {
                            lines.push(format!("KNOWN-FINDING: property={} key={} {}", self.prop, k.key, k.what));
                        }
                        Err(Stop::Fail { sig, detail }) => {
                            if self.is_known(&sig) {
                                lines.push(format!(
                                    "note: known finding {} now fails with other known key {}",
                                    k.key, sig
                                ));
                            } else {
                                fails.push(Failure { part, sig, detail, case });
                            }
                        }
                        _ => lines.push(format!("note: known finding {} no longer reproduces", k.key)),
                    }
                }
                Err(e) => lines.push(format!("note: known finding {} has no readable reproducer ({e})", k.key)),
            }
        }
        (fails, lines)
    }

    /// Write evidence, print result lines, return the exit code.
    pub fn finish(mut self, pre_fails: Vec<Failure>, level: &str) -> i32 {
        let mut all_fail: Vec<Failure> = pre_fails;
        let mut evaluations = 0u64;
        let mut nontrivial = 0u64;
        let mut samples: Vec<J> = vec![];
        let mut parts_json = vec![];
        let mut discarded_total = 0u64;
        let mut labels_total: BTreeMap<String, u64> = BTreeMap::new();
        let mut excluded_total: BTreeMap<String, u64> = BTreeMap::new();
        let mut undecided_total = 0u64;
        let mut all_exhaustive = !self.parts.is_empty();
        for p in &mut self.parts {
            evaluations += p.stats.evaluations;
            nontrivial += p.stats.nontrivial.len() as u64;
            let d: u64 = p.stats.discarded.values().sum();
            discarded_total += d;
            undecided_total += p.stats.undecided.values().sum::<u64>();
            for (k, v) in &p.stats.labels {
                *labels_total.entry(k.clone()).or_default() += v;
            }
            for (k, v) in &p.stats.excluded_known {
                *excluded_total.entry(k.clone()).or_default() += v;
            }
            all_exhaustive &= p.exhaustive;
            let take = p.stats.samples.len().min(4);
            let step = (p.stats.samples.len() / take.max(1)).max(1);
            for (i, s) in p.stats.samples.iter().enumerate() {
                if i % step == 0 && samples.len() < 40 {
                    let mut s = s.clone();
                    s["part"] = J::String(p.name.clone());
                    samples.push(s);
                }
            }
            parts_json.push(json!({
                "part": p.name, "kind": p.kind, "planned": p.planned,
                "evaluations": p.stats.evaluations,
                "distinct_nontrivial": p.stats.nontrivial.len(),
                "exhaustive": p.exhaustive,
                "discarded": p.stats.discarded, "undecided": p.stats.undecided,
                "excluded_known": p.stats.excluded_known,
                "labels": p.stats.labels,
            }));
            if p.stats.evaluations > 20 && d * 5 > p.stats.evaluations {
                self.inconclusive.push(format!(
                    "generator health: part {} discarded {} of {} cases",
                    p.name, d, p.stats.evaluations
                ));
            }
            all_fail.append(&mut p.stats.failures);
        }
        if samples.is_empty() {
            samples.push(json!({"note": "no non-trivial case was sampled"}));
        }
        // write replay files for failures
        let mut violation_lines = vec![];
        let _ = std::fs::create_dir_all(self.root.join("replays"));
        all_fail.sort_by(|a, b| (a.sig.as_str(), a.part.as_str()).cmp(&(b.sig.as_str(), b.part.as_str())));
        all_fail.dedup_by(|a, b| a.sig == b.sig && a.part == b.part);
        for f in &all_fail {
            let body = json!({"property": self.prop, "part": f.part, "signature": f.sig, "detail": f.detail, "case": f.case});
            let text = serde_json::to_string_pretty(&body).unwrap();
            let h = fingerprint(&(f.part.as_str(), f.sig.as_str(), f.case.to_string()));
            let rel = format!("replays/{}-{:016x}.json", self.prop, h);
            let _ = std::fs::write(self.root.join(&rel), text);
            violation_lines.push(format!("VIOLATION property={} replay={}", self.prop, self.root.join(&rel).display()));
            eprintln!("  signature={} part={}\n  {}", f.sig, f.part, f.detail.replace('\n', "\n  "));
        }
        let wall = self.started.elapsed().as_secs_f64();
        let mut coverage = json!({
            "evaluations": evaluations,
            "distinct_nontrivial": nontrivial,
            "rule": self.rule,
            "samples": samples,
            "exhaustive": all_exhaustive,
            "parts": parts_json,
            "labels": labels_total,
            "discarded": discarded_total,
            "undecided": undecided_total,
            "excluded_known": excluded_total,
            "domain_restrictions": self.domain_restrictions,
            "build_config": self.config,
            "inconclusive": self.inconclusive,
        });
        for (k, v) in &self.extra {
            coverage[k] = v.clone();
        }
        let ev = json!({
            "property_id": self.prop,
            "tier": self.tier.name(),
            "seed": self.seed,
            "level": level,
            "coverage": coverage,
            "assumptions": self.assumptions,
            "wall_s": (wall * 1000.0).round() / 1000.0,
            "violations": all_fail.len(),
        });
        let evname = if self.config == "main" || self.config == "hv" {
            format!("evidence/{}.json", self.prop)
        } else {
            format!("evidence/{}.{}.json", self.prop, self.config)
        };
        let evpath = std::env::var("SQV_EVIDENCE_OUT").map(PathBuf::from).unwrap_or_else(|_| self.root.join(evname));
        let _ = std::fs::create_dir_all(evpath.parent().unwrap());
        std::fs::write(&evpath, serde_json::to_string_pretty(&ev).unwrap()).expect("write evidence");
        println!(
            "{} [{} seed={} config={}]: {} evaluations, {} distinct non-trivial, {} discarded, {} undecided, {} excluded-known, {:.1}s",
            self.prop, self.tier.name(), self.seed, self.config, evaluations, nontrivial, discarded_total, undecided_total,
            excluded_total.values().sum::<u64>(), wall
        );
        if !all_fail.is_empty() {
            for l in violation_lines {
                println!("{l}");
            }
            return 1;
        }
        if !self.inconclusive.is_empty() {
            for i in &self.inconclusive {
                println!("INCONCLUSIVE: {i}");
            }
            return 2;
        }
        if nontrivial < 2 {
            println!("INCONCLUSIVE: fewer than 2 distinct non-trivial cases");
            return 2;
        }
        0
    }
}

pub fn read_replay(p: &Path) -> Result<(String, J), String> {
    let text = std::fs::read_to_string(p).map_err(|e| format!("{}: {e}", p.display()))?;
    let j: J = serde_json::from_str(&text).map_err(|e| format!("{}: {e}", p.display()))?;
    let part = j["part"].as_str().unwrap_or("").to_string();
    Ok((part, j["case"].clone()))
}

pub fn from_case<C: DeserializeOwned>(case: &J) -> Result<C, Stop> {
    serde_json::from_value(case.clone()).map_err(|e| Stop::Discard(format!("replay case does not deserialize: {e}")))
}

/// KNOWN_FINDINGS.txt: `finding: property=<id> key=<sig> replay=<path> <what fails>`
pub fn load_known(root: &Path, prop: &str) -> Vec<Known> {
    let mut v = vec![];
    let Ok(text) = std::fs::read_to_string(root.join("KNOWN_FINDINGS.txt")) else { return v };
    for line in text.lines() {
        let line = line.trim();
        let Some(rest) = line.strip_prefix("finding:") else { continue };
        let mut p = None;
        let mut key = None;
        let mut replay = None;
        let mut what = vec![];
        for tok in rest.split_whitespace() {
            if what.is_empty() {
                if let Some(x) = tok.strip_prefix("property=") {
                    p = Some(x.to_string());
                    continue;
                }
                if let Some(x) = tok.strip_prefix("key=") {
                    key = Some(x.to_string());
                    continue;
                }
                if let Some(x) = tok.strip_prefix("replay=") {
                    replay = Some(x.to_string());
                    continue;
                }
            }
            what.push(tok);
        }
        if p.as_deref() == Some(prop) {
            if let (Some(key), Some(replay)) = (key, replay) {
                v.push(Known { key, replay, what: what.join(" ") });
            }
        }
    }
    v
}

/// Shrink-friendly index mapping (monotone in `i`).
pub fn pick_idx(i: u16, len: usize) -> usize {
    ((i as usize) * len) >> 16
}

/// Produce a value from a strategy deterministically (used by replays of generated corpora).
pub fn sample_strategy<S: Strategy>(s: &S, seed: u64) -> S::Value {
    let mut cfg = Config::default();
    cfg.rng_seed = RngSeed::Fixed(seed);
    cfg.failure_persistence = None;
    let mut r = TestRunner::new(cfg);
    s.new_tree(&mut r).unwrap().current()
}
