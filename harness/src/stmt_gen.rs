//! proptest generators for statement specs, and the normalisation passes that move a freely
//! generated spec into a sound domain *by construction* (no rejection):
//!   * `fix_render`: the domain of the rendering-level properties (C01, C02, C08, C11): only what the
//!     backend documents as unsupported (panic arms) or what the builder API itself enforces is removed;
//!   * `fix_exec`: the domain of the executable properties (C07, C09): column references are put in
//!     scope, aggregates / windows / set operations / LIMIT are made deterministic and valid for SQLite.

use crate::expr_spec::*;
use crate::runner::pick_idx;
use crate::stmt_spec::*;
use crate::util::Dialect;
use proptest::prelude::*;

fn small_expr(d: Dialect) -> BoxedStrategy<E> {
    // engine-evaluable scalar expressions; qualified columns are produced by the fix-up passes
    expr(d, 2, true)
}

fn any_expr(d: Dialect) -> BoxedStrategy<E> {
    prop_oneof![3 => expr(d, 2, true), 1 => expr(d, 3, false)].boxed()
}

/// a WHERE / HAVING / ON element: mostly a plain expression, sometimes a condition group (any / all, negate, nested, empty)
fn pred(d: Dialect) -> BoxedStrategy<E> {
    let group = |inner: BoxedStrategy<E>| {
        (any::<bool>(), proptest::bool::weighted(0.3), proptest::collection::vec(inner, 0..4)).prop_map(|(any, negate, members)| E::Cond { any, negate, members })
    };
    let leaf = small_expr(d);
    let nested = prop_oneof![4 => small_expr(d), 1 => group(small_expr(d)).boxed()].boxed();
    prop_oneof![3 => leaf, 1 => group(nested).boxed()].boxed()
}

fn ord(d: Dialect, exec: bool) -> BoxedStrategy<OrdSpec> {
    let general = ord_general(d, exec);
    // NULLS FIRST/LAST over a COALESCE / IFNULL of two nullable columns: the native forms and MySQL's emulation must agree
    let nullable_fn = (any::<bool>(), 0u8..4, 0u8..4, any::<bool>(), any::<bool>()).prop_map(|(coalesce, x, y, desc, first)| OrdSpec {
        e: E::Func(if coalesce { F::Coalesce } else { F::IfNull }, vec![E::Col(x), E::Col(y)]),
        dir: if desc { Dir::Desc } else { Dir::Asc },
        nulls: Some(first),
    });
    prop_oneof![9 => general, 1 => nullable_fn].boxed()
}

fn ord_general(d: Dialect, exec: bool) -> BoxedStrategy<OrdSpec> {
    (
        if exec { small_expr(d) } else { any_expr(d) },
        prop_oneof![4 => Just(Dir::Asc), 4 => Just(Dir::Desc), 1 => proptest::collection::vec(0i64..4, 1..4).prop_map(Dir::Field)],
        proptest::option::weighted(0.3, any::<bool>()),
    )
        .prop_map(|(e, dir, nulls)| OrdSpec { e, dir, nulls })
        .boxed()
}

fn frame_bound() -> impl Strategy<Value = FrameB> {
    prop_oneof![
        Just(FrameB::UnboundedPreceding),
        (0u32..4).prop_map(FrameB::Preceding),
        Just(FrameB::CurrentRow),
        (0u32..4).prop_map(FrameB::Following),
        Just(FrameB::UnboundedFollowing),
    ]
}

fn win(d: Dialect, exec: bool) -> BoxedStrategy<WinSpec> {
    (
        proptest::collection::vec(small_expr(d), 0..3),
        proptest::collection::vec(ord(d, exec), 0..3),
        proptest::option::weighted(0.5, (any::<bool>(), frame_bound(), proptest::option::of(frame_bound()))),
    )
        .prop_map(|(partition, order, frame)| WinSpec { partition, order, frame })
        .boxed()
}

fn item(d: Dialect, exec: bool) -> BoxedStrategy<Item> {
    (
        prop_oneof![
            6 => if exec { small_expr(d) } else { any_expr(d) },
            2 => (0u8..5, small_expr(d), any::<bool>()).prop_map(|(f, e, dd)| E::Agg(f, Box::new(e), dd)),
            1 => Just(E::CountStar),
        ],
        proptest::option::weighted(0.4, 0u8..4),
        proptest::option::weighted(0.15, prop_oneof![3 => win(d, exec).prop_map(WinRef::Inline), 1 => Just(WinRef::Named)]),
    )
        .prop_map(|(e, alias, win)| Item { e, alias, win })
        .boxed()
}

fn from_item(d: Dialect, depth: u32, exec: bool) -> BoxedStrategy<FromSpec> {
    let table = (0u8..3, proptest::option::weighted(0.3, 3u8..6)).prop_map(|(t, a)| FromSpec::Table(t, a));
    let values = (proptest::collection::vec(proptest::collection::vec(0i64..5, 2), 1..3), 3u8..6).prop_map(|(rows, a)| FromSpec::Values(rows, a));
    let cte = (0u8..2, proptest::option::weighted(0.3, 3u8..6)).prop_map(|(c, a)| FromSpec::Cte(c, a));
    if depth == 0 {
        prop_oneof![8 => table, 1 => values, 1 => cte].boxed()
    } else {
        prop_oneof![
            8 => table,
            1 => values,
            1 => cte,
            3 => (select(d, depth - 1, exec), 3u8..6).prop_map(|(s, a)| FromSpec::Sub(Box::new(s), a)),
        ]
        .boxed()
    }
}

fn join(d: Dialect, depth: u32, exec: bool) -> BoxedStrategy<JoinSpec> {
    (
        proptest::sample::select(vec![JoinKind::Join, JoinKind::Inner, JoinKind::Left, JoinKind::Right, JoinKind::FullOuter, JoinKind::Cross]),
        from_item(d, depth, exec),
        pred(d),
        proptest::bool::weighted(0.1),
    )
        .prop_map(|(kind, src, on, lateral)| JoinSpec { kind, src, on, lateral })
        .boxed()
}

fn with(d: Dialect, depth: u32, exec: bool) -> BoxedStrategy<WithSpec> {
    let cte = (0u8..2, proptest::option::weighted(0.3, any::<bool>()), select(d, depth, exec), proptest::collection::vec(0u8..5, 0..3), proptest::bool::weighted(0.3)).prop_map(
        |(name, materialized, q, cols, derive)| CteSpec { name, cols: if derive { vec![] } else { cols }, materialized, query: Box::new(q), derive },
    );
    (proptest::bool::weighted(0.2), proptest::collection::vec(cte, 1..3), proptest::option::weighted(0.2, (any::<bool>(), 0u8..5)), proptest::option::weighted(0.2, 0u8..5))
        .prop_map(|(recursive, ctes, search, cycle)| WithSpec { recursive, ctes, search, cycle })
        .boxed()
}

pub fn select(d: Dialect, depth: u32, exec: bool) -> BoxedStrategy<SelectSpec> {
    let sub_depth = depth.saturating_sub(1);
    let unions = if depth == 0 {
        Just(vec![]).boxed()
    } else {
        proptest::collection::vec(
            (proptest::sample::select(vec![Un::Union, Un::UnionAll, Un::Intersect, Un::Except]), select(d, sub_depth, exec)),
            0..3,
        )
        .prop_map(|v| v)
        .boxed()
    };
    let part1 = (
        proptest::option::weighted(0.25, prop_oneof![3 => Just(Dist::Distinct), 1 => proptest::collection::vec(1u8..5, 1..3).prop_map(Dist::DistinctOn)]),
        proptest::collection::vec(item(d, exec), 1..6),
        proptest::collection::vec(from_item(d, depth, exec), 0..3),
        proptest::collection::vec(join(d, depth, exec), 0..4),
        proptest::collection::vec(pred(d), 0..4),
        proptest::collection::vec(small_expr(d), 0..5),
        proptest::collection::vec(pred(d), 0..3),
    );
    let part2 = (
        unions,
        proptest::collection::vec(ord(d, exec), 0..4),
        proptest::option::weighted(0.35, 0u64..5),
        proptest::option::weighted(0.25, 0u64..4),
        proptest::option::weighted(
            0.15,
            (0u8..4, proptest::collection::vec(0u8..3, 0..2), 0u8..3).prop_map(|(ty, tables, behavior)| LockSpec { ty, tables, behavior }),
        ),
        proptest::option::weighted(0.15, win(d, exec)),
        if depth == 0 { Just(None).boxed() } else { proptest::option::weighted(0.2, with(d, sub_depth, exec)).boxed() },
        proptest::collection::vec((0u8..3, 0u8..4), 0..2),
        proptest::option::weighted(0.15, (any::<bool>(), 1u32..100, proptest::option::of(0u32..10))),
        any::<u8>(),
    );
    (part1, part2)
        .prop_map(|((distinct, items, from, joins, wheres, groups, havings), (unions, orders, limit, offset, lock, window, with, hints, sample, api))| SelectSpec {
            distinct,
            items,
            from,
            joins,
            wheres,
            groups,
            havings,
            unions,
            orders,
            limit,
            offset,
            lock,
            window,
            with,
            hints,
            sample,
            api,
        })
        .boxed()
}

fn returning(d: Dialect) -> BoxedStrategy<Returning> {
    prop_oneof![
        Just(Returning::All),
        proptest::collection::vec(0u8..6, 1..3).prop_map(Returning::Cols),
        proptest::collection::vec(small_expr(d), 1..3).prop_map(Returning::Exprs),
    ]
    .boxed()
}

fn conflict(d: Dialect) -> BoxedStrategy<ConflictSpec> {
    (
        proptest::collection::vec(prop_oneof![Just(0u8), Just(5u8)], 0..2),
        proptest::option::weighted(0.2, small_expr(d)),
        prop_oneof![
            Just(ConflictAction::DoNothing),
            proptest::collection::vec(0u8..6, 1..2).prop_map(ConflictAction::DoNothingOn),
            proptest::collection::vec(1u8..5, 1..3).prop_map(ConflictAction::UpdateColumns),
            proptest::collection::vec((1u8..5, small_expr(d)), 1..3).prop_map(ConflictAction::UpdateValues),
        ],
        proptest::option::weighted(0.2, small_expr(d)),
        any::<u8>(),
    )
        .prop_map(|(targets, target_where, action, action_where, api)| ConflictSpec { targets, target_where, action, action_where, api })
        .boxed()
}

pub fn insert(d: Dialect, exec: bool) -> BoxedStrategy<InsertSpec> {
    (
        proptest::bool::weighted(0.15),
        0u8..3,
        proptest::collection::vec(1u8..6, 1..4),
        prop_oneof![
            5 => proptest::collection::vec(proptest::collection::vec(small_expr(d), 3), 1..4).prop_map(InsertSource::Values),
            2 => select(d, 1, exec).prop_map(|s| InsertSource::Select(Box::new(s))),
            1 => (1u32..3).prop_map(InsertSource::Default),
        ],
        proptest::option::weighted(0.35, conflict(d)),
        proptest::option::weighted(0.3, returning(d)),
        proptest::option::weighted(if exec { 0.3 } else { 0.1 }, with(d, 0, exec)),
        any::<u8>(),
    )
        .prop_map(|(replace, table, columns, source, on_conflict, returning, with, api)| InsertSpec { replace, table, columns, source, on_conflict, returning, with, api })
        .boxed()
}

pub fn update(d: Dialect, exec: bool) -> BoxedStrategy<UpdateSpec> {
    (
        0u8..3,
        proptest::collection::vec((1u8..5, small_expr(d)), 1..4),
        proptest::collection::vec((0u8..3, proptest::option::weighted(0.3, 3u8..6)).prop_map(|(t, a)| FromSpec::Table(t, a)), 0..2),
        proptest::collection::vec(pred(d), 0..3),
        proptest::collection::vec(ord(d, exec), 0..2),
        proptest::option::weighted(0.3, 0u64..4),
        proptest::option::weighted(0.3, returning(d)),
        proptest::option::weighted(if exec { 0.3 } else { 0.1 }, with(d, 0, exec)),
        any::<u8>(),
    )
        .prop_map(|(table, sets, from, wheres, orders, limit, returning, with, api)| UpdateSpec { table, sets, from, wheres, orders, limit, returning, with, api })
        .boxed()
}

pub fn delete(d: Dialect, exec: bool) -> BoxedStrategy<DeleteSpec> {
    (
        0u8..3,
        proptest::collection::vec(pred(d), 0..3),
        proptest::collection::vec(ord(d, exec), 0..2),
        proptest::option::weighted(0.3, 0u64..4),
        proptest::option::weighted(0.3, returning(d)),
        proptest::option::weighted(if exec { 0.3 } else { 0.1 }, with(d, 0, exec)),
        any::<u8>(),
    )
        .prop_map(|(table, wheres, orders, limit, returning, with, api)| DeleteSpec { table, wheres, orders, limit, returning, with, api })
        .boxed()
}

/// Statements in the rendering domain of dialect `d`.
pub fn stmt_render(d: Dialect) -> BoxedStrategy<Stmt> {
    prop_oneof![
        5 => select(d, 2, false).prop_map(Stmt::Select),
        2 => insert(d, false).prop_map(Stmt::Insert),
        2 => update(d, false).prop_map(Stmt::Update),
        1 => delete(d, false).prop_map(Stmt::Delete),
    ]
    .prop_map(move |mut s| {
        fix_render(&mut s, d);
        s
    })
    .boxed()
}

pub fn dialect_stmt_render() -> BoxedStrategy<(Dialect, Stmt)> {
    prop_oneof![
        stmt_render(Dialect::Mysql).prop_map(|s| (Dialect::Mysql, s)),
        stmt_render(Dialect::Postgres).prop_map(|s| (Dialect::Postgres, s)),
        stmt_render(Dialect::Sqlite).prop_map(|s| (Dialect::Sqlite, s)),
    ]
    .boxed()
}

// ------------------------------------------------------------------------------ fix_render

fn fix_with_render(w: &mut Option<WithSpec>, d: Dialect) {
    if let Some(ws) = w {
        if ws.ctes.is_empty() {
            *w = None;
            return;
        }
        for c in ws.ctes.iter_mut() {
            fix_select_render(&mut c.query, d);
        }
        if !ws.recursive || ws.ctes.len() != 1 || d != Dialect::Postgres {
            // SEARCH / CYCLE are written after the whole CTE list: meaningful only with exactly one CTE (engine grammar)
            if d == Dialect::Postgres {
                ws.search = None;
                ws.cycle = None;
            }
        }
    }
}

fn fix_from_render(f: &mut FromSpec, d: Dialect) {
    if let FromSpec::Sub(s, _) = f {
        fix_select_render(s, d);
    }
}

pub fn fix_select_render(s: &mut SelectSpec, d: Dialect) {
    for f in s.from.iter_mut() {
        fix_from_render(f, d);
    }
    for j in s.joins.iter_mut() {
        fix_from_render(&mut j.src, d);
        if d == Dialect::Mysql && j.kind == JoinKind::FullOuter {
            j.kind = JoinKind::Left; // documented panic: "Mysql does not support FULL OUTER JOIN"
        }
        if d == Dialect::Postgres && j.kind == JoinKind::Cross && !matches!(j.src, FromSpec::Table(0, Some(3))) {
            // Postgres CROSS JOIN .. ON is a known finding (C08 K1); keep it rare so that it does not mask the rest of such statements
            j.kind = JoinKind::Inner;
        }
        if matches!(j.src, FromSpec::Values(..)) {
            j.src = FromSpec::Table(0, Some(4)); // there is no join_values API
        }
        if !matches!(j.src, FromSpec::Sub(..)) {
            j.lateral = false;
        }
    }
    for (_, u) in s.unions.iter_mut() {
        fix_select_render(u, d);
    }
    fix_with_render(&mut s.with, d);
    if matches!(s.distinct, Some(Dist::All) | Some(Dist::DistinctRow) | Some(Dist::None)) {
        s.distinct = None; // no public setter
    }
    if d != Dialect::Postgres {
        if let Some(Dist::DistinctOn(_)) = s.distinct {
            s.distinct = Some(Dist::Distinct);
        }
    }
    if let Some(l) = &mut s.lock {
        if d == Dialect::Mysql {
            // MySQL knows FOR UPDATE / FOR SHARE only (engine grammar)
            l.ty = if l.ty % 2 == 0 { 0 } else { 2 };
        }
    }
    if d != Dialect::Postgres && s.offset.is_some() && s.limit.is_none() {
        s.limit = Some(9); // MySQL and SQLite have no OFFSET without LIMIT (engine grammar)
    }
    // TABLESAMPLE and index hints are written after the whole FROM list: only with exactly one FROM table (engine grammar)
    if s.from.len() != 1 || !matches!(s.from[0], FromSpec::Table(..)) {
        s.sample = None;
        s.hints.clear();
    }
}

pub fn fix_render(s: &mut Stmt, d: Dialect) {
    match s {
        Stmt::Select(q) => fix_select_render(q, d),
        Stmt::Insert(i) => {
            fix_with_render(&mut i.with, d);
            if d == Dialect::Postgres {
                i.replace = false; // Postgres has no REPLACE
            }
            match &mut i.source {
                InsertSource::Values(rows) => {
                    for r in rows.iter_mut() {
                        r.resize(i.columns.len(), E::Int(0));
                    }
                }
                InsertSource::Select(sel) => {
                    fix_select_render(sel, d);
                    sel.items.truncate(i.columns.len());
                    while sel.items.len() < i.columns.len() {
                        sel.items.push(Item { e: E::Int(7), alias: None, win: None });
                    }
                }
                InsertSource::Default(_) => i.columns.clear(),
            }
            if let Some(c) = &mut i.on_conflict {
                if d == Dialect::Mysql {
                    // "Sadly this is not valid today": plain do_nothing() needs key columns on MySQL
                    if c.action == ConflictAction::DoNothing {
                        c.action = ConflictAction::DoNothingOn(vec![0]);
                    }
                } else if let ConflictAction::DoNothingOn(_) = c.action {
                    c.action = ConflictAction::DoNothing;
                }
                if d != Dialect::Mysql && c.targets.is_empty() && !matches!(c.action, ConflictAction::DoNothing) {
                    c.targets = vec![0]; // DO UPDATE needs a conflict target (engine grammar)
                }
            }
        }
        Stmt::Update(u) => {
            fix_with_render(&mut u.with, d);
            if d == Dialect::Mysql && u.from.len() > 1 {
                u.from.truncate(1); // known: MySQL renders only the first table (kept out of the generic domain, covered by a dedicated C08 case)
            }
            if d == Dialect::Postgres || (d == Dialect::Mysql && !u.from.is_empty()) {
                u.orders.clear();
                u.limit = None; // engine grammar: no ORDER BY / LIMIT there
            }
        }
        Stmt::Delete(x) => {
            fix_with_render(&mut x.with, d);
            if d == Dialect::Postgres {
                x.orders.clear();
                x.limit = None;
            }
        }
    }
}

// -------------------------------------------------------------------------------- fix_exec

/// Options of the executable domain.
#[derive(Clone, Copy)]
pub struct ExecOpts {
    /// restrict to the subset common to MySQL, Postgres and SQLite (C09)
    pub portable: bool,
}

fn strip_aggs(e: &E) -> E {
    match e {
        E::Agg(_, inner, _) => strip_aggs(inner),
        E::CountStar => E::Int(1),
        // SQLite folds a constant right operand of IS into TRUE / FALSE and then applies the *truth test* `x IS TRUE`
        // (`p IS (0 IS NOT NULL)` behaves like `p IS TRUE`), while the same operand computed from a bound value is compared
        // as a number: the literal and the bound form legitimately differ in the engine. Constant right operands other than
        // NULL / a plain boolean are therefore kept out of the executable domain.
        E::Bin(l, op @ (Op::Is | Op::IsNot), r) if !matches!(**r, E::Null | E::Bool(_)) && !has_column(r) => {
            E::Bin(Box::new(strip_aggs(l)), *op, Box::new(E::Null))
        }
        // see rescope(): JSON operators and MATCH are not executable deterministically
        E::Bin(l, Op::SqGetJson | Op::SqCastJson, r) => E::Bin(Box::new(strip_aggs(l)), Op::Sub, Box::new(strip_aggs(r))),
        E::Bin(l, Op::SqMatch, r) => E::Bin(Box::new(strip_aggs(l)), Op::SqGlob, Box::new(strip_aggs(r))),
        other => other.map_children(&mut |_, c| strip_aggs(c)),
    }
}

/// The executable domain of IS / IS NOT (applied to every expression of an executed statement):
///  * a plain boolean on the right is written as the keyword in both modes (`x IS ?` with a bound boolean is the known finding
///    `is-with-bound-boolean`, demonstrated by its own reproducer; the search does not have to rediscover it);
///  * any other constant right operand becomes NULL (see strip_aggs: SQLite folds constants into the truth test).
fn exec_is(e: &E) -> E {
    match e {
        E::Bin(l, op @ (Op::Is | Op::IsNot), r) => {
            let mut inner: &E = r;
            while let E::AsEnum(x) = inner {
                inner = x;
            }
            let r2 = match inner {
                E::Bool(b) | E::ConstBool(b) => E::ConstBool(*b),
                E::Null => E::Null,
                other if !has_column(other) => E::Null,
                _ => exec_is(r),
            };
            E::Bin(Box::new(exec_is(l)), *op, Box::new(r2))
        }
        other => other.map_children(&mut |_, c| exec_is(c)),
    }
}

fn has_column(e: &E) -> bool {
    matches!(e, E::Col(_) | E::TCol(_) | E::QCol(..) | E::AliasRef(_) | E::Exists | E::ScalarSub | E::InSub { .. }) || e.children().iter().any(|c| has_column(c))
}

fn has_agg(e: &E) -> bool {
    matches!(e, E::Agg(..) | E::CountStar) || e.children().iter().any(|c| has_agg(c))
}

/// rewrite column references to the given scope of qualifiers
fn rescope(e: &E, scope: &[u8]) -> E {
    rescope_inner(&exec_is(e), scope)
}

fn rescope_inner(e: &E, scope: &[u8]) -> E {
    match e {
        E::Col(_) | E::TCol(_) if scope.is_empty() => E::Int(1),
        E::Col(c) | E::TCol(c) => {
            if scope.len() == 1 {
                E::Col(*c)
            } else {
                E::QCol(scope[*c as usize % scope.len()], 1 + (*c % 4))
            }
        }
        E::QCol(t, c) => {
            if scope.is_empty() {
                E::Int(1)
            } else {
                E::QCol(scope[*t as usize % scope.len()], *c % 5)
            }
        }
        E::AliasRef(_) | E::Star => E::Int(2),
        // MATCH needs an application-defined function: not executable
        E::Bin(l, Op::SqMatch, r) => E::Bin(Box::new(rescope_inner(l, scope)), Op::SqGlob, Box::new(rescope_inner(r, scope))),
        // `->` / `->>` raise "malformed JSON" at run time on non-JSON operands; whether a row reaches them depends on
        // the engine's short-circuiting of constant conditions, which differs between literal and bound operands
        E::Bin(l, Op::SqGetJson | Op::SqCastJson, r) => E::Bin(Box::new(rescope_inner(l, scope)), Op::Sub, Box::new(rescope_inner(r, scope))),
        other => other.map_children(&mut |_, c| rescope_inner(c, scope)),
    }
}

/// an ORDER BY term that is a bare integer constant means "column number": keep such terms out of the domain
fn not_positional(e: E) -> E {
    match e {
        E::Int(_) | E::Const(_) => E::Null,
        // as_enum writes nothing on SQLite / MySQL, so the constant would again stand alone
        E::AsEnum(x) => E::AsEnum(Box::new(not_positional(*x))),
        other => other,
    }
}

/// portable subset: drop constructs whose spelling or semantics differ between the engines
fn portable_expr(e: &E) -> E {
    match e {
        E::Bin(l, op, r) => {
            let op2 = match op {
                // integer division, modulo sign, shifts, bit operators and IS differ between engines
                Op::Div | Op::Mod | Op::LShift | Op::RShift | Op::BitAnd | Op::BitOr => Op::Add,
                Op::Like | Op::NotLike => Op::Eq,
                Op::Custom(_) | Op::SqGlob | Op::SqMatch | Op::SqGetJson | Op::SqCastJson => Op::Sub,
                o => *o,
            };
            let r2 = if matches!(op2, Op::Is | Op::IsNot) { E::Null } else { portable_expr(r) };
            E::Bin(Box::new(portable_expr(l)), op2, Box::new(r2))
        }
        E::Cast(x, _) | E::AsEnum(x) => portable_expr(x),
        E::Text(_) => E::Int(1),
        E::Bool(b) => E::Int(*b as i64),
        E::ConstBool(b) => E::Int(*b as i64),
        E::Func(F::Round | F::Lower | F::Upper | F::Custom, a) => portable_expr(&a[0]),
        E::CustomText => E::Int(2),
        E::CustomTmpl(x, y) => E::Bin(Box::new(portable_expr(x)), Op::Add, Box::new(portable_expr(y))),
        E::LikePat { x, .. } => E::Bin(Box::new(portable_expr(x)), Op::Is, Box::new(E::Null)),
        other => other.map_children(&mut |_, c| portable_expr(c)),
    }
}

fn qualifier_of(f: &FromSpec) -> Option<u8> {
    match f {
        FromSpec::Table(t, None) => Some(*t % 3),
        FromSpec::Table(_, Some(a)) | FromSpec::Cte(_, Some(a)) => Some(*a % 8),
        FromSpec::Cte(c, None) => Some(6 + *c % 2),
        FromSpec::Sub(_, a) => Some(*a % 8),
        FromSpec::Values(..) => None,
    }
}

/// the fixed shape of FROM-subqueries and CTE bodies: they expose id, p, q, r, s
fn passthrough_select(table: u8, wheres: Vec<E>, limit: Option<u64>) -> SelectSpec {
    let mut s = SelectSpec::default();
    s.items = (0u8..5).map(|c| Item { e: if c == 0 { E::QCol(table % 3, 0) } else { E::QCol(table % 3, c) }, alias: None, win: None }).collect();
    s.from = vec![FromSpec::Table(table % 3, None)];
    s.wheres = wheres.iter().map(|w| rescope(&strip_aggs(w), &[table % 3])).collect();
    if let Some(l) = limit {
        s.orders = vec![OrdSpec { e: E::QCol(table % 3, 0), dir: Dir::Asc, nulls: None }];
        s.limit = Some(l);
    }
    s
}

fn fix_source_exec(f: &mut FromSpec, ctes: &[u8], o: ExecOpts) {
    match f {
        FromSpec::Sub(s, _) => {
            let t = match s.from.first() {
                Some(FromSpec::Table(t, _)) => *t,
                _ => 1,
            };
            let wheres: Vec<E> = s.wheres.iter().map(|w| if o.portable { portable_expr(w) } else { w.clone() }).collect();
            **s = passthrough_select(t, wheres, s.limit);
        }
        FromSpec::Cte(c, a) => {
            if !ctes.contains(&(*c % 2)) {
                *f = FromSpec::Table(*c % 2, *a);
            }
        }
        _ => {}
    }
}

/// Make a SELECT valid and deterministic on SQLite (and portable if requested).
pub fn fix_select_exec(s: &mut SelectSpec, o: ExecOpts, allow_with: bool) {
    fix_select_exec_n(s, o, allow_with, None)
}

/// `arity`: the number of result columns this select must have (it is an operand of a set operation)
fn fix_select_exec_n(s: &mut SelectSpec, o: ExecOpts, allow_with: bool, arity: Option<usize>) {
    // ---- WITH: CTE bodies are pass-through selects; names are unique
    let mut ctes: Vec<u8> = vec![];
    if !allow_with {
        s.with = None;
    }
    if let Some(w) = &mut s.with {
        w.search = None;
        w.cycle = None;
        // RECURSIVE stays as generated; the first CTE then really refers to itself (below)
        let recursive = w.recursive;
        let mut seen = vec![];
        w.ctes.retain(|c| {
            let n = c.name % 2;
            if seen.contains(&n) {
                false
            } else {
                seen.push(n);
                true
            }
        });
        for c in w.ctes.iter_mut() {
            let t = match c.query.from.first() {
                Some(FromSpec::Table(t, _)) => *t,
                _ => 0,
            };
            let wheres: Vec<E> = c.query.wheres.iter().map(|w| if o.portable { portable_expr(w) } else { w.clone() }).collect();
            *c.query = passthrough_select(t, wheres, None);
            // an explicit column list, when one was generated, names all five columns as the table does (so that the outer statement's
            // references stay valid and the list is nevertheless written)
            c.cols = if c.cols.is_empty() { vec![] } else { vec![0, 1, 2, 3, 4] };
            if c.derive {
                // from_select derives the column list from the select list: every item is aliased with the plain column name, so the
                // derived list keeps the names the outer statement refers to
                for (k, it) in c.query.items.iter_mut().enumerate() {
                    it.alias = Some(100 + k as u8);
                }
            }
            if o.portable {
                c.materialized = None;
            }
            if recursive && ctes.is_empty() {
                // a terminating recursion: every base row yields one more row with id + 100
                //   <base> UNION ALL SELECT c.id + 100, c.p, c.q, c.r, c.s FROM c WHERE c.id < 100
                let me = 6 + c.name % 2;
                let mut arm = SelectSpec::default();
                arm.items = (0u8..5)
                    .map(|k| Item { e: if k == 0 { E::Bin(Box::new(E::QCol(me, 0)), Op::Add, Box::new(E::Int(100))) } else { E::QCol(me, k) }, alias: None, win: None })
                    .collect();
                arm.from = vec![FromSpec::Cte(c.name % 2, None)];
                arm.wheres = vec![E::Bin(Box::new(E::QCol(me, 0)), Op::Lt, Box::new(E::Int(100)))];
                c.query.unions = vec![(Un::UnionAll, arm)];
                // the column list of a recursive CTE: SQLite takes the names from the first select; MySQL wants them spelled out
                c.cols = vec![0, 1, 2, 3, 4];
                c.derive = false;
                c.materialized = None;
            }
            ctes.push(c.name % 2);
        }
        if w.ctes.is_empty() {
            s.with = None;
        }
    }
    // ---- FROM / JOIN sources with unique qualifiers
    if s.from.is_empty() {
        s.from.push(FromSpec::Table(0, None));
    }
    s.from.truncate(2);
    s.joins.truncate(2);
    let star_only = matches!(s.from[0], FromSpec::Values(..)) && arity.is_none();
    if star_only {
        // the column names of a VALUES table differ between engines: select * from it, nothing else
        let f0 = s.from[0].clone();
        let mut t = SelectSpec::default();
        t.items = vec![Item { e: E::Star, alias: None, win: None }];
        t.from = vec![f0];
        t.with = None;
        *s = t;
        return;
    }
    s.from.retain(|f| !matches!(f, FromSpec::Values(..)));
    if s.from.is_empty() {
        s.from.push(FromSpec::Table(1, None));
    }
    let mut used: Vec<u8> = vec![];
    let mut next_alias = 3u8;
    let mut uniq = |f: &mut FromSpec, used: &mut Vec<u8>| {
        let q = qualifier_of(f).unwrap_or(0);
        if used.contains(&q) {
            while used.contains(&next_alias) {
                next_alias += 1;
            }
            let a = next_alias.min(5);
            match f {
                FromSpec::Table(_, al) | FromSpec::Cte(_, al) => *al = Some(a),
                FromSpec::Sub(_, al) => *al = a,
                _ => {}
            }
        }
        used.push(qualifier_of(f).unwrap_or(0));
    };
    for f in s.from.iter_mut() {
        fix_source_exec(f, &ctes, o);
        uniq(f, &mut used);
    }
    for j in s.joins.iter_mut() {
        if let FromSpec::Values(_, a) = &j.src {
            j.src = FromSpec::Table(1, Some(*a)); // a VALUES table has engine-specific column names
        }
        fix_source_exec(&mut j.src, &ctes, o);
        uniq(&mut j.src, &mut used);
        j.lateral = false;
        if o.portable && !matches!(j.kind, JoinKind::Inner | JoinKind::Left | JoinKind::Join) {
            j.kind = JoinKind::Left;
        }
    }
    // duplicates can remain if more than three aliases were needed: drop the offenders
    let mut seen: Vec<u8> = vec![];
    s.from.retain(|f| {
        let q = qualifier_of(f).unwrap_or(0);
        if seen.contains(&q) {
            false
        } else {
            seen.push(q);
            true
        }
    });
    s.joins.retain(|j| {
        let q = qualifier_of(&j.src).unwrap_or(0);
        if seen.contains(&q) {
            false
        } else {
            seen.push(q);
            true
        }
    });
    let scope: Vec<u8> = seen.clone();
    let fx = |e: &E| -> E {
        let e = if o.portable { portable_expr(e) } else { e.clone() };
        rescope(&e, &scope)
    };
    // SQLite 3.40.1 mis-evaluates RIGHT / FULL JOIN after a join whose ON condition folds to a constant
    // (`SELECT .. FROM t JOIN t a ON 0 RIGHT JOIN t b ON ..` returns no rows; reproduced with plain SQL, see DESIGN.md):
    // with such joins present every ON condition is a column equality, so the engine defect stays out of the oracle.
    let outer_right = s.joins.iter().any(|j| matches!(j.kind, JoinKind::Right | JoinKind::FullOuter));
    for (k, j) in s.joins.iter_mut().enumerate() {
        // the ON condition may only see the tables joined so far
        let upto = (s.from.len() + k + 1).min(scope.len());
        if outer_right && upto >= 2 {
            let c = 1 + (k as u8 % 4);
            j.on = E::Bin(Box::new(E::QCol(scope[upto - 2], c)), Op::Eq, Box::new(E::QCol(scope[upto - 1], 1 + ((k as u8 + 1) % 4))));
            continue;
        }
        let e = if o.portable { portable_expr(&j.on) } else { j.on.clone() };
        j.on = rescope(&strip_aggs(&e), &scope[..upto]);
    }
    s.wheres = s.wheres.iter().map(|w| strip_aggs(&fx(w))).collect();
    // ---- grouping
    s.groups = s.groups.iter().map(|g| strip_aggs(&fx(g))).filter(|g| !matches!(g, E::Int(_) | E::Const(_) | E::Null | E::Bool(_) | E::ConstBool(_) | E::Text(_))).collect();
    // a text value as a whole select item stays (portable mode): it comes back as a row value, so the three backends' literal
    // encodings are compared through the transliteration
    let mut items: Vec<Item> = s.items.iter().map(|it| Item { e: if o.portable && matches!(it.e, E::Text(_)) { it.e.clone() } else { fx(&it.e) }, alias: it.alias, win: it.win.clone() }).collect();
    let grouped = !s.groups.is_empty() || items.iter().any(|it| it.win.is_none() && has_agg(&it.e)) || !s.havings.is_empty();
    let wrap = |e: E, groups: &[E]| -> E {
        if has_agg(&e) || groups.contains(&e) {
            // nested aggregates are invalid
            match &e {
                E::Agg(f, inner, dd) => E::Agg(*f, Box::new(strip_aggs(inner)), *dd),
                other if groups.contains(other) => other.clone(),
                other => E::Agg(2, Box::new(strip_aggs(other)), false),
            }
        } else {
            E::Agg(2, Box::new(e), false)
        }
    };
    if grouped {
        for it in items.iter_mut() {
            it.win = None;
            it.e = wrap(it.e.clone(), &s.groups);
        }
        s.havings = s.havings.iter().map(|h| {
            let h = fx(h);
            // a HAVING predicate over aggregates: compare MAX(expr) with something
            E::Bin(Box::new(wrap(strip_aggs(&h), &s.groups)), Op::IsNot, Box::new(E::Null))
        }).collect();
        s.window = None;
    } else {
        s.havings.clear();
        for it in items.iter_mut() {
            match &mut it.win {
                None => it.e = strip_aggs(&it.e),
                Some(w) => {
                    if o.portable {
                        it.win = None;
                        it.e = strip_aggs(&it.e);
                        continue;
                    }
                    // a window function must be an aggregate; its window gets a total order
                    it.e = match &it.e {
                        E::Agg(f, inner, _) => E::Agg(*f, Box::new(strip_aggs(inner)), false),
                        E::CountStar => E::CountStar,
                        other => E::Agg(1, Box::new(strip_aggs(other)), false),
                    };
                    if let WinRef::Inline(ws) = w {
                        fix_window_exec(ws, &scope, o);
                    }
                }
            }
        }
        if let Some(ws) = &mut s.window {
            fix_window_exec(ws, &scope, o);
        }
        if s.window.is_none() {
            for it in items.iter_mut() {
                if matches!(it.win, Some(WinRef::Named)) {
                    it.win = None;
                    it.e = strip_aggs(&it.e);
                }
            }
        }
    }
    if o.portable {
        s.window = None;
    }
    // unique item aliases
    let mut used_alias: Vec<u8> = vec![];
    for it in items.iter_mut() {
        if let Some(a) = it.alias {
            if used_alias.contains(&(a % 4)) {
                it.alias = None;
            } else {
                used_alias.push(a % 4);
            }
        }
    }
    if let Some(n) = arity {
        items.retain(|i| !matches!(i.e, E::Star));
        items.truncate(n);
        while items.len() < n {
            items.push(Item { e: if grouped { E::Agg(2, Box::new(E::Int(3)), false) } else { E::Int(3) }, alias: None, win: None });
        }
    }
    s.items = items;
    s.distinct = match &s.distinct {
        Some(Dist::Distinct) => Some(Dist::Distinct),
        _ => None,
    };
    s.lock = None;
    s.hints.clear();
    s.sample = None;
    // ---- set operations: arms have the same arity, carry no ORDER BY / LIMIT, and are not nested
    s.items.truncate(4);
    let n_items = s.items.len();
    let has_star = s.items.iter().any(|i| matches!(i.e, E::Star));
    if has_star {
        s.unions.clear();
    }
    s.unions.truncate(2);
    for (_, u) in s.unions.iter_mut() {
        // an arm may itself be a compound select, one level deep: A EXCEPT (B UNION C)
        for (_, uu) in u.unions.iter_mut() {
            uu.unions.clear();
        }
        u.unions.truncate(1);
        u.with = None;
        fix_select_exec_n(u, o, false, Some(n_items.min(4)));
        u.orders.clear();
        u.limit = None;
        u.offset = None;
    }
    // ---- ORDER BY / LIMIT: deterministic
    let compound = !s.unions.is_empty();
    if compound {
        // ORDER BY of a compound select may only name result columns: give every item an alias and order by all of them
        for (k, it) in s.items.iter_mut().enumerate() {
            it.alias = Some(k as u8 % 4);
        }
        let want_order = !s.orders.is_empty() || s.limit.is_some() || s.offset.is_some();
        let dirs: Vec<Dir> = s.orders.iter().map(|o| match &o.dir { Dir::Field(_) => Dir::Asc, d => d.clone() }).collect();
        s.orders.clear();
        if want_order {
            for k in 0..s.items.len() {
                s.orders.push(OrdSpec { e: E::AliasRef(k as u8), dir: dirs.get(k).cloned().unwrap_or(Dir::Asc), nulls: None });
            }
            // rows of a compound select are totally ordered by all their columns (duplicates are indistinguishable)
        }
    } else {
        let mut orders: Vec<OrdSpec> = s
            .orders
            .iter()
            .map(|od| {
                let e = fx(&od.e);
                let e = if grouped { wrap(e, &s.groups) } else { strip_aggs(&e) };
                // FIELD order combined with NULLS FIRST/LAST is the known cross-backend divergence `mysql/field-order-with-nulls`
                // (its reproducer is replayed on every run): not generated in the portable subset
                OrdSpec { e: not_positional(e), dir: od.dir.clone(), nulls: if o.portable && matches!(od.dir, Dir::Field(_)) { None } else { od.nulls } }
            })
            .collect();
        if s.limit.is_some() || s.offset.is_some() || !orders.is_empty() {
            // append a total order so that the row sequence is a function of the data
            if grouped {
                for g in &s.groups {
                    orders.push(OrdSpec { e: g.clone(), dir: Dir::Asc, nulls: None });
                }
                if s.groups.is_empty() {
                    // a single group: one row
                }
            } else if s.distinct.is_some() || s.items.iter().any(|i| matches!(i.e, E::Star)) {
                if s.items.iter().all(|i| i.win.is_none() && !matches!(i.e, E::Star)) {
                    for it in &s.items {
                        orders.push(OrdSpec { e: it.e.clone(), dir: Dir::Asc, nulls: None });
                    }
                } else {
                    orders.clear();
                    s.limit = None;
                    s.offset = None;
                }
            } else {
                for q in &scope {
                    orders.push(OrdSpec { e: if scope.len() == 1 { E::QCol(*q, 0) } else { E::QCol(*q, 0) }, dir: Dir::Asc, nulls: None });
                }
            }
        }
        s.orders = orders;
    }
    if s.offset.is_some() && s.limit.is_none() {
        s.limit = Some(3); // OFFSET without LIMIT is not accepted by SQLite / MySQL
    }
}

fn fix_window_exec(ws: &mut WinSpec, scope: &[u8], o: ExecOpts) {
    let fx = |e: &E| rescope(&strip_aggs(&if o.portable { portable_expr(e) } else { e.clone() }), scope);
    ws.partition = ws.partition.iter().map(&fx).collect();
    ws.order = ws.order.iter().map(|od| OrdSpec { e: not_positional(fx(&od.e)), dir: match &od.dir { Dir::Field(_) => Dir::Desc, d => d.clone() }, nulls: od.nulls }).collect();
    // total order inside the window so that ROWS frames are deterministic
    for q in scope {
        ws.order.push(OrdSpec { e: E::QCol(*q, 0), dir: Dir::Asc, nulls: None });
    }
    if let Some((rows, start, end)) = &mut ws.frame {
        // RANGE with an offset needs exactly one numeric ORDER BY term: use ROWS for offsets
        let has_offset = matches!(start, FrameB::Preceding(_) | FrameB::Following(_)) || matches!(end, Some(FrameB::Preceding(_)) | Some(FrameB::Following(_)));
        if has_offset {
            *rows = true;
        }
        let rank = |b: &FrameB| match b {
            FrameB::UnboundedPreceding => 0,
            FrameB::Preceding(_) => 1,
            FrameB::CurrentRow => 2,
            FrameB::Following(_) => 3,
            FrameB::UnboundedFollowing => 4,
        };
        match end {
            None => {
                // a single bound is the frame START: it cannot be FOLLOWING-ish
                if rank(start) > 2 {
                    *start = FrameB::CurrentRow;
                }
            }
            Some(e) => {
                if *start == FrameB::UnboundedFollowing {
                    *start = FrameB::CurrentRow;
                }
                if *e == FrameB::UnboundedPreceding {
                    *e = FrameB::CurrentRow;
                }
                if rank(start) > rank(e) {
                    std::mem::swap(start, e);
                }
                if let (FrameB::Preceding(a), FrameB::Preceding(b)) = (*start, *e) {
                    if a < b {
                        *start = FrameB::Preceding(b);
                        *e = FrameB::Preceding(a);
                    }
                }
                if let (FrameB::Following(a), FrameB::Following(b)) = (*start, *e) {
                    if a > b {
                        *start = FrameB::Following(b);
                        *e = FrameB::Following(a);
                    }
                }
            }
        }
    }
}

fn fix_returning_exec(r: &mut Option<Returning>, table: u8) {
    if let Some(Returning::Cols(c)) = r {
        for x in c.iter_mut() {
            if table % 3 != 2 {
                *x %= 5;
            }
        }
    }
    if let Some(Returning::Exprs(es)) = r {
        *es = es.iter().map(|e| rescope(&strip_aggs(e), &[table % 3])).collect();
    }
}

/// Executable statements for SQLite (C07) / the portable subset (C09).
pub fn stmt_exec(o: ExecOpts) -> BoxedStrategy<Stmt> {
    let d = Dialect::Sqlite;
    prop_oneof![
        6 => select(d, 2, true).prop_map(Stmt::Select),
        2 => insert(d, true).prop_map(Stmt::Insert),
        2 => update(d, true).prop_map(Stmt::Update),
        2 => delete(d, true).prop_map(Stmt::Delete),
    ]
    .prop_map(move |mut s| {
        fix_exec(&mut s, o);
        s
    })
    .boxed()
}

/// WITH around an executable INSERT / UPDATE / DELETE (SQLite only, not in the portable subset): one CTE named `tt` that shadows the
/// table read by every expression subquery (`.. FROM tt WHERE id < 5`), so that losing or misplacing the clause changes what the
/// statement does. Its body is a filtered pass-through of one of the tables (no subqueries: it could not refer to `tt` itself).
fn dml_with_exec(w: Option<WithSpec>, o: ExecOpts) -> Option<WithSpec> {
    if o.portable {
        return None;
    }
    let c0 = w?.ctes.into_iter().next()?;
    let t = match c0.query.from.first() {
        Some(FromSpec::Table(t, _)) => *t % 3,
        _ => 0,
    };
    let bound = 2 + (c0.query.items.len() + c0.query.wheres.len()) as i64 % 5;
    let query = passthrough_select(t, vec![E::Bin(Box::new(E::QCol(t, 0)), Op::Lt, Box::new(E::Int(bound)))], None);
    let mut c = CteSpec { name: 200, cols: if c0.cols.is_empty() { vec![] } else { vec![0, 1, 2, 3, 4] }, materialized: c0.materialized, query: Box::new(query), derive: c0.derive };
    if c.derive {
        for (k, it) in c.query.items.iter_mut().enumerate() {
            it.alias = Some(100 + k as u8);
        }
    }
    Some(WithSpec { recursive: false, ctes: vec![c], search: None, cycle: None })
}

pub fn fix_exec(s: &mut Stmt, o: ExecOpts) {
    let px = |e: &E| if o.portable { portable_expr(e) } else { e.clone() };
    match s {
        Stmt::Select(q) => fix_select_exec(q, o, true),
        Stmt::Insert(i) => {
            i.with = dml_with_exec(i.with.take(), o);
            i.table = 2; // t3 has the unique key k and receives the inserts
            if o.portable {
                i.replace = false;
                i.on_conflict = None;
                i.returning = None;
            }
            // distinct target columns, never the rowid alias id
            let mut cols: Vec<u8> = vec![];
            for c in &i.columns {
                let c = 1 + (c % 5);
                if !cols.contains(&c) {
                    cols.push(c);
                }
            }
            i.columns = cols;
            match &mut i.source {
                InsertSource::Values(rows) => {
                    for r in rows.iter_mut() {
                        r.resize(i.columns.len(), E::Int(0));
                        for e in r.iter_mut() {
                            // VALUES rows cannot reference columns
                            *e = exec_is(&strip_cols(&strip_aggs(&px(e))));
                        }
                    }
                }
                InsertSource::Select(sel) => {
                    sel.unions.clear();
                    fix_select_exec(sel, o, false);
                    sel.items.retain(|it| !matches!(it.e, E::Star));
                    sel.items.truncate(i.columns.len());
                    while sel.items.len() < i.columns.len() {
                        sel.items.push(Item { e: E::Int(7), alias: None, win: None });
                    }
                    // SQLite's documented parsing ambiguity: INSERT ... SELECT ... ON CONFLICT needs a WHERE clause
                    if i.on_conflict.is_some() && sel.wheres.is_empty() {
                        sel.wheres.push(E::ConstBool(true));
                    }
                    if i.with.is_some() && sel.groups.is_empty() && sel.havings.is_empty() {
                        // the source reads the CTE
                        sel.wheres.push(E::InSub { not: false, x: Box::new(E::Int(0)) });
                    }
                }
                InsertSource::Default(n) => {
                    i.columns.clear();
                    *n = 1; // SQLite inserts one default row
                    i.on_conflict = None; // DEFAULT VALUES takes no upsert clause (engine grammar)
                }
            }
            if let Some(c) = &mut i.on_conflict {
                // the only unique keys of t3 are id (rowid) and k
                c.targets = if c.targets.first().map(|t| t % 2) == Some(0) { vec![5] } else { vec![5] };
                c.target_where = None;
                match &mut c.action {
                    ConflictAction::DoNothingOn(_) => c.action = ConflictAction::DoNothing,
                    ConflictAction::UpdateColumns(cols) => {
                        for x in cols.iter_mut() {
                            *x = 1 + (*x % 4);
                        }
                        cols.dedup();
                    }
                    ConflictAction::UpdateValues(vals) => {
                        let mut seen = vec![];
                        vals.retain(|(c, _)| {
                            let c = 1 + (c % 4);
                            if seen.contains(&c) {
                                false
                            } else {
                                seen.push(c);
                                true
                            }
                        });
                        for (c, e) in vals.iter_mut() {
                            *c = 1 + (*c % 4);
                            *e = rescope(&strip_aggs(&px(e)), &[2]);
                        }
                    }
                    ConflictAction::DoNothing => {}
                }
                if let Some(w) = &c.action_where {
                    if matches!(c.action, ConflictAction::DoNothing) {
                        c.action_where = None;
                    } else {
                        c.action_where = Some(rescope(&strip_aggs(&px(w)), &[2]));
                    }
                }
            }
            fix_returning_exec(&mut i.returning, 2);
        }
        Stmt::Update(u) => {
            u.with = dml_with_exec(u.with.take(), o);
            let t = u.table % 3;
            let mut seen = vec![];
            u.sets.retain(|(c, _)| {
                let c = 1 + (c % 4);
                if seen.contains(&c) {
                    false
                } else {
                    seen.push(c);
                    true
                }
            });
            if o.portable {
                u.from.clear();
                u.returning = None;
                u.orders.clear();
                u.limit = None;
            }
            u.from.truncate(1);
            let mut scope = vec![t];
            if let Some(f) = u.from.first_mut() {
                // UPDATE .. FROM another table under an alias
                if let FromSpec::Table(ft, al) = f {
                    if al.is_none() || *ft % 3 == t {
                        *al = Some(4);
                    }
                    scope.push(al.unwrap() % 8);
                }
            }
            for (c, e) in u.sets.iter_mut() {
                *c = 1 + (*c % 4);
                *e = rescope(&strip_aggs(&px(e)), &scope);
            }
            u.wheres = u.wheres.iter().map(|w| rescope(&strip_aggs(&px(w)), &scope)).collect();
            if u.with.is_some() {
                // the statement reads the CTE
                u.wheres.push(E::InSub { not: u.sets.len() % 2 == 0, x: Box::new(E::QCol(t, 1)) });
            }
            if !u.from.is_empty() {
                // joined update: make the join key explicit so that each target row matches at most one source row
                u.wheres.push(E::Bin(Box::new(E::QCol(scope[0], 0)), Op::Eq, Box::new(E::QCol(scope[1], 0))));
                u.orders.clear();
                u.limit = None;
            }
            u.orders = u.orders.iter().map(|od| OrdSpec { e: not_positional(rescope(&strip_aggs(&px(&od.e)), &[t])), dir: od.dir.clone(), nulls: od.nulls }).collect();
            if u.limit.is_some() || !u.orders.is_empty() {
                u.orders.push(OrdSpec { e: E::Col(0).clone(), dir: Dir::Asc, nulls: None });
                u.orders.push(OrdSpec { e: E::QCol(t, 0), dir: Dir::Asc, nulls: None });
                if u.limit.is_none() {
                    u.limit = Some(2); // SQLite: ORDER BY on UPDATE needs LIMIT
                }
            }
            fix_returning_exec(&mut u.returning, t);
        }
        Stmt::Delete(x) => {
            x.with = dml_with_exec(x.with.take(), o);
            let t = x.table % 3;
            if o.portable {
                x.returning = None;
                x.orders.clear();
                x.limit = None;
            }
            x.wheres = x.wheres.iter().map(|w| rescope(&strip_aggs(&px(w)), &[t])).collect();
            if x.with.is_some() {
                x.wheres.push(E::InSub { not: x.wheres.len() % 2 == 1, x: Box::new(E::QCol(t, 1)) });
            }
            x.orders = x.orders.iter().map(|od| OrdSpec { e: not_positional(rescope(&strip_aggs(&px(&od.e)), &[t])), dir: od.dir.clone(), nulls: od.nulls }).collect();
            if x.limit.is_some() || !x.orders.is_empty() {
                x.orders.push(OrdSpec { e: E::QCol(t, 0), dir: Dir::Asc, nulls: None });
                if x.limit.is_none() {
                    x.limit = Some(2);
                }
            }
            fix_returning_exec(&mut x.returning, t);
        }
    }
}

fn strip_cols(e: &E) -> E {
    match e {
        E::Col(c) | E::TCol(c) => E::Int(*c as i64),
        E::QCol(_, c) => E::Int(*c as i64),
        E::AliasRef(_) | E::Star => E::Int(1),
        other => other.map_children(&mut |_, c| strip_cols(c)),
    }
}

pub fn pick<T: Clone>(v: &[T], i: u16) -> T {
    v[pick_idx(i, v.len())].clone()
}
