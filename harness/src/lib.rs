//! sqv — property-based verification harness for SeaQL/sea-query (see /verif/DESIGN.md).
#![allow(clippy::all)]
#![allow(deprecated)]

pub mod runner;
pub mod util;
pub mod lex;
pub mod sqlite;
pub mod parse;
pub mod expr_spec;
pub mod stmt_spec;
pub mod stmt_gen;
pub mod stmt_params;
pub mod stmt_ref;
pub mod translit;
pub mod stmt_inv;
pub mod props;
pub mod fuzzdec;
