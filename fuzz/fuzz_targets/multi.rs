#![no_main]
// One binary for every campaign: SQV_FUZZ_TARGET selects the entry of sqv::fuzzdec::TARGETS (decoding + check).
use libfuzzer_sys::fuzz_target;
use std::sync::OnceLock;

static TARGET: OnceLock<&'static sqv::fuzzdec::Target> = OnceLock::new();

fuzz_target!(|data: &[u8]| {
    let t = TARGET.get_or_init(|| {
        let name = std::env::var("SQV_FUZZ_TARGET").unwrap_or_else(|_| "tok".to_string());
        sqv::fuzzdec::target(&name).unwrap_or_else(|| {
            eprintln!("unknown SQV_FUZZ_TARGET {name}");
            std::process::exit(2)
        })
    });
    sqv::fuzzdec::fuzz_one(t, data);
});
