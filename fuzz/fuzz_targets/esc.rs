#![no_main]
// C17: unescape(escape(s)) == s on every backend.
use libfuzzer_sys::fuzz_target;
use sqv::props::c17;
use sqv::runner::Obs;

fuzz_target!(|data: &[u8]| {
    let s = String::from_utf8_lossy(data).to_string();
    let c = c17::Case { s };
    let mut obs = Obs::default();
    if let Err(sqv::runner::Stop::Fail { sig, detail }) = c17::check(&c, &mut obs) {
        sqv::fuzzrep::report("C17", "fuzz", &sig, &detail, &c);
    }
});
