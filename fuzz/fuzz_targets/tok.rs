#![no_main]
// C16: tokenizer is lossless and terminates — coverage-guided inputs through the same oracle as the check.
use libfuzzer_sys::fuzz_target;
use sqv::props::c16;
use sqv::runner::Obs;

fuzz_target!(|data: &[u8]| {
    let s = String::from_utf8_lossy(data).to_string();
    let mut obs = Obs::default();
    if let Err(sqv::runner::Stop::Fail { sig, detail }) = c16::check_input(&s, &[], &mut obs) {
        sqv::fuzzrep::report("C16", "fuzz", &sig, &detail, &c16::Case::Raw(s));
    }
});
