#![no_main]
// C03: an inlined text literal decodes to exactly the supplied value; first two bytes select position and backend.
use libfuzzer_sys::fuzz_target;
use sqv::props::c03;
use sqv::runner::Obs;
use sqv::util::{Dialect, DIALECTS};

fuzz_target!(|data: &[u8]| {
    if data.len() < 2 {
        return;
    }
    let d: Dialect = DIALECTS[(data[0] % 3) as usize];
    let mut text = String::from_utf8_lossy(&data[2..]).to_string();
    if d != Dialect::Mysql {
        text = text.replace('\0', "0");
    }
    let payload = c03::Payload::Text(text);
    let poss: Vec<c03::Pos> = c03::ALL_POS.iter().copied().filter(|p| c03::applicable(*p, d, &payload)).collect();
    let c = c03::Case { pos: poss[data[1] as usize % poss.len()], dialect: d, payload };
    let mut obs = Obs::default();
    if let Err(sqv::runner::Stop::Fail { sig, detail }) = c03::check(&c, &mut obs) {
        sqv::fuzzrep::report("C03", "fuzz", &sig, &detail, &c);
    }
});
