#!/usr/bin/env python3
"""Sensitivity runs: apply a mutant (old/new text replacement or a patch file) to a SCRATCH worktree of /repo,
build a copy of the harness against it and run checks there. /repo itself is never touched.
usage: tools/mutant.py <mutant-name-substring | path/to/patch.diff> <ID>[,<ID>...] [--tier quick] [--keep]
"""
import json, os, subprocess, sys, shutil, glob
ROOT = "/verif"
# SQV_MUT_ID separates concurrent users (own scratch worktree and build dir); SQV_HARNESS_DIR selects the harness copy to test
MID = os.environ.get("SQV_MUT_ID", "")
HARNESS = os.environ.get("SQV_HARNESS_DIR", f"{ROOT}/harness")
WT = "/tmp/sqv-mut-wt" + (f"-{MID}" if MID else "")
WORK = f"{ROOT}/.work/mut" + (f"-{MID}" if MID else "")

def sh(cmd, **kw):
    return subprocess.run(cmd, shell=True, text=True, capture_output=True, **kw)

def load_mutants():
    ms = []
    for f in sorted(glob.glob(f"{ROOT}/mutants/*.json")):
        ms += json.load(open(f))["mutants"]
    return ms

def prepare_worktree():
    if not os.path.isdir(WT):
        r = sh(f"git -C /repo worktree add --detach {WT} HEAD")
        if r.returncode: sys.exit("worktree add failed: " + r.stderr)
    sh(f"git -C {WT} checkout -q --detach $(git -C /repo rev-parse HEAD) && git -C {WT} reset -q --hard && git -C {WT} clean -qfd")
    if not os.path.exists(f"{WT}/Cargo.lock"):
        shutil.copy("/repo/Cargo.lock", f"{WT}/Cargo.lock")

def apply(spec):
    if os.path.isfile(spec):
        r = sh(f"git -C {WT} apply {os.path.abspath(spec)}")
        if r.returncode: sys.exit("patch does not apply: " + r.stderr)
        return spec
    ms = [m for m in load_mutants() if spec.lower() in m["name"].lower()]
    if len(ms) != 1: sys.exit(f"mutant name {spec!r} matches {len(ms)} entries: {[m['name'] for m in ms]}")
    m = ms[0]
    edits = m.get("edits") or [m]
    for e in edits:
        p = f"{WT}/{e['file']}"
        s = open(p).read()
        if s.count(e["old"]) != 1: sys.exit(f"mutant {m['name']}: old text occurs {s.count(e['old'])} times in {e['file']}")
        open(p, "w").write(s.replace(e["old"], e["new"]))
    return m["name"]

def main():
    args = [a for a in sys.argv[1:] if not a.startswith("--")]
    tier = "quick"
    if "--tier" in sys.argv: tier = sys.argv[sys.argv.index("--tier") + 1]; args.remove(tier)
    spec, ids = args[0], args[1].split(",")
    prepare_worktree()
    name = apply(spec)
    os.makedirs(WORK, exist_ok=True)
    sh(f"rsync -a --delete {HARNESS}/ {WORK}/harness/ && sed -i 's#path = \"/repo\"#path = \"{WT}\"#' {WORK}/harness/Cargo.toml")
    sh(f"rm -rf {WORK}/root && mkdir -p {WORK}/root/replays && cp {ROOT}/KNOWN_FINDINGS.txt {WORK}/root/ && cp -r {ROOT}/replays/known {ROOT}/replays/regress {WORK}/root/replays/ 2>/dev/null")
    results = {}
    CONFIGS = {"C18": ["hv"], "C12": ["main", "hv"], "C05": ["main", "paren"], "C06": ["main", "paren"]}
    FEATS = {"main": "", "hv": "--features hv", "paren": "--features paren"}
    for pid in ids:
        for cfg in CONFIGS.get(pid, ["main"]):
            key = pid if cfg in ("main",) or CONFIGS.get(pid) == [cfg] else f"{pid}/{cfg}"
            b = sh(f"cd {WORK}/harness && CARGO_NET_OFFLINE=true CARGO_TARGET_DIR={WORK}/target-{cfg} cargo build --release {FEATS[cfg]}")
            if b.returncode:
                results[key] = ("BUILD-FAIL", b.stderr[-600:]); continue
            env = dict(os.environ, SQV_ROOT=f"{WORK}/root", SQV_REPO=WT)
            r = subprocess.run(f"{WORK}/target-{cfg}/release/sqv {pid} --tier {tier} --config {cfg}", shell=True, text=True, capture_output=True, env=env)
            sigs = [l.strip() for l in r.stderr.splitlines() if l.strip().startswith("signature=")]
            results[key] = (r.returncode, sigs[:4], [l for l in r.stdout.splitlines() if not l.startswith("KNOWN-FINDING")][-2:])
            if r.returncode == 1:
                break
    print(json.dumps({"mutant": name, "results": results}, indent=1))
    if "--keep" not in sys.argv:
        sh(f"git -C {WT} reset -q --hard")

if __name__ == "__main__":
    main()
