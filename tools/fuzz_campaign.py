#!/usr/bin/env python3
"""Coverage-guided campaign (libFuzzer via cargo-fuzz) for one property, run by ./check in the thorough tier.
usage: tools/fuzz_campaign.py <ID> <target> <runs-per-process> [processes]
Fixed work: <processes> independent libFuzzer processes, each -runs=<runs> from its own fresh corpus directory seeded
with the same small golden inputs, seeds derived from VERIF_SEED (libFuzzer's -seed pins a campaign only approximately).
Folds what the campaign covered into evidence/<ID>.json (coverage.fuzz_campaign). Exit 0 = nothing found, 1 = a
VIOLATION line was printed (the replay file is an ordinary replay), 2 = inconclusive (build missing, crash that is not
a property verdict, time-out)."""
import json, os, re, shutil, subprocess, sys, hashlib

ROOT = os.environ.get("SQV_ROOT", "/verif")
WORK = f"{ROOT}/.work"
BIN = os.environ.get("SQV_FUZZ_BIN", f"{WORK}/target-fuzz/x86_64-unknown-linux-gnu/release/multi")

GOLDEN = {
    "tok": [b"SELECT `a`, \"b\" FROM [t] WHERE x = 'it''s' AND y = $1 -- c", b"'a\\'b' \"q\\\"\" `x``y` ? ?? $10 1.5e3", b"", b"a'"],
    "esc": [b"it's", b"a\\b\n\r\t\x00\x1a\"", b"", b"%_\\%"],
    "lit": [b"\x00\x00it's", b"\x01\x03a\\b", b"\x02\x05\"q\" $1 ?", b"\x00\x07\x00\n\x1a"],
    "tmpl": [b"\x01\x02\x01\x00\x01\x02\x0c\x00\x02\x04", b"\x00\x00\x00\x03\x02\x00\x05\x04\x0c", b"\x02\x01\x00\x1b\x03\x06\x07\x01\x04\x06", b"\x01\x00\x04\x17\x01\x02\x04\x0f\x01"],
    "ident": [b"\x00\x00a`b", b"\x01\x04a\"b.c", b"\x02\x09[x]\\", b"\x01\x10 sp ace"],
}

def main():
    pid, target, runs = sys.argv[1], sys.argv[2], int(sys.argv[3])
    procs = int(sys.argv[4]) if len(sys.argv) > 4 else 8
    seed = int(os.environ.get("VERIF_SEED", "0") or 0)
    ev_path = f"{ROOT}/evidence/{pid}.json"
    report = {"engine": "libFuzzer (cargo-fuzz 0.13, sanitizer none, debug assertions on)", "target": target, "processes": procs, "runs_per_process": runs}
    rc = 0
    if not os.path.exists(BIN):
        report["status"] = "skipped: fuzz binary not built"
        rc = 2
    else:
        base = f"{WORK}/fuzz-run/{target}"
        shutil.rmtree(base, ignore_errors=True)
        ps = []
        for i in range(procs):
            d = f"{base}/p{i}"
            os.makedirs(f"{d}/corpus"); os.makedirs(f"{d}/artifacts")
            for k, g in enumerate(GOLDEN.get(target, [b""])):
                open(f"{d}/corpus/golden{k}", "wb").write(g)
            s = int.from_bytes(hashlib.sha256(f"{seed}/{target}/{i}".encode()).digest()[:4], "big") | 1
            env = dict(os.environ, SQV_FUZZ_TARGET=target, SQV_FUZZ_STATS=f"{d}/stats.json", SQV_ROOT=ROOT)
            cmd = [BIN, f"{d}/corpus", f"-runs={runs}", f"-seed={s}", "-len_control=0", "-max_len=192", "-timeout=60", "-rss_limit_mb=4096",
                   "-print_final_stats=1", f"-artifact_prefix={d}/artifacts/"]
            ps.append((i, d, s, subprocess.Popen(cmd, env=env, stdout=open(f"{d}/out.log", "w"), stderr=subprocess.STDOUT)))
        tot = {"executions": 0, "decoded": 0, "passed": 0, "distinct_nontrivial": 0, "labels": {}, "discarded": {}, "undecided": {}, "excluded_known": {}}
        samples, per, violations, crashes = [], [], [], []
        for i, d, s, p in ps:
            code = p.wait()
            log = open(f"{d}/out.log", errors="replace").read()
            for l in log.splitlines():
                if l.startswith("VIOLATION "):
                    violations.append(l.strip())
            m = re.findall(r"#(\d+)\s+DONE\s+cov: (\d+) ft: (\d+) corp: (\d+)", log)
            execs = re.search(r"stat::number_of_executed_units:\s*(\d+)", log)
            entry = {"process": i, "libfuzzer_seed": s, "exit": code, "executed_units": int(execs.group(1)) if execs else None}
            if m:
                entry.update({"cov_edges": int(m[-1][1]), "features": int(m[-1][2]), "corpus_inputs": int(m[-1][3])})
            if code != 0 and not any(v for v in violations):
                arts = os.listdir(f"{d}/artifacts")
                crashes.append({"process": i, "exit": code, "artifacts": [f"{d}/artifacts/{a}" for a in arts], "tail": log[-400:]})
            try:
                st = json.load(open(f"{d}/stats.json"))
                for k in ("executions", "decoded", "passed"):
                    tot[k] += st.get(k, 0)
                # distinct within a process; processes explore different inputs, the sum is an upper bound and the maximum a lower bound
                entry["distinct_nontrivial"] = st.get("distinct_nontrivial", 0)
                tot["distinct_nontrivial"] = max(tot["distinct_nontrivial"], st.get("distinct_nontrivial", 0))
                for k in ("labels", "discarded", "undecided", "excluded_known"):
                    for a, b in st.get(k, {}).items():
                        tot[k][a] = tot[k].get(a, 0) + b
                samples += st.get("samples", [])[:2]
            except Exception as e:
                entry["stats"] = f"missing ({e})"
            per.append(entry)
        report.update(tot)
        report["distinct_nontrivial_note"] = "largest per-process count of distinct non-trivial inputs (a lower bound for the campaign)"
        report["per_process"] = per
        report["samples"] = samples[:8]
        report["violations"] = violations
        if violations:
            rc = 1
        elif crashes:
            report["crashes_not_verdicts"] = crashes
            rc = 2
        report["status"] = "completed"
        for v in violations:
            print(v)
        for c in crashes:
            print(f"INCONCLUSIVE: fuzz process {c['process']} of target {target} ended with status {c['exit']} without a property verdict; artifacts {c['artifacts']}")
        print(f"{pid} fuzz[{target}]: {tot['executions']} executions in {procs} processes, >= {tot['distinct_nontrivial']} distinct non-trivial, "
              f"{sum(tot['excluded_known'].values())} excluded-known, edges covered {max([e.get('cov_edges', 0) for e in per] or [0])}")
    try:
        ev = json.load(open(ev_path))
        ev["coverage"].setdefault("fuzz_campaigns", []).append(report)
        if rc == 1:
            ev["violations"] = (ev.get("violations") or 0) + len(report.get("violations", []))
        if rc == 2:
            ev["coverage"].setdefault("inconclusive", []).append(f"fuzz campaign {target}: {report.get('status')} / crashes without verdict")
        json.dump(ev, open(ev_path, "w"), indent=1)
    except Exception as e:
        print("note: could not fold the fuzz campaign into the evidence file:", e)
    sys.exit(rc)

if __name__ == "__main__":
    main()
