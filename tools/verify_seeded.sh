#!/bin/bash
# Confirms a seeded change in its scratch worktree: (1) with the change the pinned 477 tests pass, (2) the demonstration fails,
# (3) without the change the demonstration passes.   usage: [SEED_PREFIX=/tmp/seed2-] tools/verify_seeded.sh C07 ["extra cargo features for the demo"]
ID=$1; FEAT=${2:-tests-cfg}; WT=${SEED_PREFIX:-/tmp/seed-}$ID
cd $WT || exit 2
git checkout -q -- src sea-query-derive 2>/dev/null; git apply seeded/patch.diff || { echo "$ID patch does not apply"; exit 2; }
cp seeded/seeded_demo.rs tests/seeded_demo.rs
mv tests/seeded_demo.rs /tmp/seeded_demo_$ID.rs
S=$(cargo nextest run --workspace --no-fail-fast --tool-config-file pb:/w/lib/nextest.toml --profile pb --test-threads 8 --offline 2>&1 | grep -E "Summary|tests run" | tail -1)
mv /tmp/seeded_demo_$ID.rs tests/seeded_demo.rs
D1=$(cargo test --offline --features "$FEAT" --test seeded_demo 2>&1 | grep -E "^test result|error\[|error: could not compile" | head -2 | tr '\n' ' ')
git apply -R seeded/patch.diff
D2=$(cargo test --offline --features "$FEAT" --test seeded_demo 2>&1 | grep -E "^test result|error\[|error: could not compile" | head -2 | tr '\n' ' ')
git apply seeded/patch.diff
echo "$ID | suite-with-change: $S | demo-with-change: $D1 | demo-without-change: $D2"
