#!/usr/bin/env python3
"""Store a confirmed seeded change: tools/store_seeded.py <ID> <worktree> <dest-name> <verify-log> <round-log> <round> [first-run-note]
Copies patch.diff / seeded_demo.rs / NOTES.md and writes meta.json from the confirmation log and the check run log."""
import json, os, re, shutil, sys
pid, wt, dest, vlog, rlog, rnd = sys.argv[1:7]
note = sys.argv[7] if len(sys.argv) > 7 else ""
d = f"/verif/seeded/{dest}"
os.makedirs(d, exist_ok=True)
for f in ("patch.diff", "seeded_demo.rs", "NOTES.md"):
    if os.path.exists(f"{wt}/seeded/{f}"): shutil.copy(f"{wt}/seeded/{f}", f"{d}/{f}")
title = ""
for l in open("/verif/properties.jsonl"):
    j = json.loads(l)
    if j.get("id") == pid: title = j.get("title", "")
conf = {}
for l in open(vlog):
    if l.startswith(pid + " |"):
        parts = [p.strip() for p in l.split("|")]
        conf = {"how": f"SEED_PREFIX={os.path.dirname(wt)}/{os.path.basename(wt)[:-len(pid)]} tools/verify_seeded.sh {pid} in the scratch worktree: pinned 477-test suite with the change, demonstration with the change, demonstration with the change reverted",
                "suite_with_change": parts[1].split(":", 1)[1].strip(), "demo_with_change": parts[2].split(":", 1)[1].strip(), "demo_without_change": parts[3].split(":", 1)[1].strip()}
txt = open(rlog).read()
m = re.search(r"=== %s\n(\{.*?\n\})\n" % pid, txt, re.S)
det = []
if m:
    r = json.loads(m.group(1))["results"]
    for k, v in r.items():
        det.append({"check": k, "exit": v[0], "signatures": [s.replace("signature=", "").split(" part=")[0] for s in v[1]]})
notes = open(f"{d}/NOTES.md").read() if os.path.exists(f"{d}/NOTES.md") else ""
meta = {"property": pid, "title": title,
        "origin": f"independent sub-agent given only the property text and a scratch worktree ({wt}); round {rnd}",
        "needs_to_manifest": " ".join(notes.split())[:1500],
        "confirmed_by_me": conf,
        "checked_with": f"python3 tools/mutant.py seeded/{dest}/patch.diff {pid}  (scratch worktree; /repo untouched)",
        "detected_by": det, "note": note}
json.dump(meta, open(f"{d}/meta.json", "w"), indent=1)
print(dest, [(x["check"], x["exit"]) for x in det], conf.get("demo_with_change", "")[:30])
