#!/usr/bin/env python3
"""Regenerates /verif/MANIFEST.json from the table below and validates it against the schema."""
import json, os, sys
ROOT = os.path.dirname(os.path.dirname(os.path.abspath(__file__)))

BASELINE_OFF = ("cd /repo && cargo nextest run --workspace --no-fail-fast --tool-config-file pb:/w/lib/nextest.toml --profile pb "
                "--test-threads 8 --offline || (cd /repo && cargo test --workspace --no-fail-fast --offline)")

CHECKS = {
 "C08": dict(
   technique="proptest over statement specs per dialect; oracle = recursive-descent statement parsers for MySQL and Postgres (clause order, multiplicity, separators, dialect exclusivity) producing a clause inventory that is compared with the inventory computed from the spec alone",
   text="Exploration: 200 000 (quick) / 4 000 000 (thorough) generated statements for MySQL and Postgres in both rendering modes; each must parse under the transcribed statement grammar of its dialect and the recovered inventory (every clause, items in call order, expressions as neutral trees, the dialect's NULLS form, dialect-specific constructs) must equal what the builder was given.",
   note="No MySQL / Postgres engine exists offline: the statement grammars (stmt_inv.rs) and expression grammars (parse.rs) are hand transcriptions of the manuals; constructs of uncertain status are counted as undecided, never reported.",
   ref="DESIGN.md 4/C08"),
 "C09": dict(
   technique="proptest over portable statement specs; oracle = metamorphic / differential execution: the MySQL and Postgres renderings are transliterated token by token into SQLite spelling and all six texts (3 backends x 2 modes) are executed on the real SQLite engine, rows and table contents compared; the common outcome is additionally compared with an explicit reference rendering of the builder calls, so that a clause lost by all three backends alike is noticed",
   text="Exploration: 150 000 (quick) / 3 000 000 (thorough) statements from the portable subset (SELECT with joins, grouping, set operations incl. nested arms, NULLS / FIELD ordering, LIMIT / OFFSET, CTEs; INSERT VALUES / SELECT / default row; UPDATE; DELETE), each rendered for the three backends in both modes and executed after a purely lexical transliteration; function names that the source dialect does not define are reported.",
   note="Only the structure the other backend produced is evaluated (on SQLite); no claim about MySQL / Postgres run-time semantics. Transliteration rules are listed in translit.rs; the portable subset excludes operators whose semantics differ between the engines.",
   ref="DESIGN.md 4/C09"),
 "C13": dict(
   technique="exhaustive sweep (type x specification x ordered specification pairs) + proptest over table definitions followed by ALTER / INDEX / RENAME / DROP histories; oracle = reference catalogue model updated from the spec versus the real SQLite engine's catalogue (PRAGMAs, sqlite_master, probing inserts, typeof affinity probes)",
   text="Exploration: an exhaustive sweep of 7 135 single-table definitions (every supported ColumnType x each specification x every ordered pair) plus 8 000 (quick) / 240 000 (thorough) random schema histories; after every statement the engine's catalogue must report exactly the declared objects (columns, nullability, defaults, keys, autoincrement, checks, indexes with direction / uniqueness / partial predicate, foreign keys with actions) and each type name must carry the intended storage affinity. Plus table-level extra options (WITHOUT ROWID / STRICT) against pragma_table_list.",
   note="Engine = system SQLite 3.40.1. Two engine facts are encoded as domain restrictions (listed in the evidence). Generated columns, WITHOUT ROWID / STRICT, compound default expressions and populated tables are out of scope.",
   ref="DESIGN.md 4/C13"),
 "C14": dict(
   technique="exhaustive sweeps (type forms, ordered specification sequences, ALTER option sequences) + proptest over schema statements; oracle = recursive-descent DDL parsers for MySQL and Postgres over the harness's dialect lexers, recovered element inventory compared with the declared one, type names checked against lists of defined types",
   text="Exploration: about 950 000 (quick) / 10 000 000 (thorough) CREATE TABLE / ALTER TABLE / index / foreign-key / type / extension statements for MySQL and Postgres; each rendering must parse under the transcribed DDL grammar into exactly the declared elements in declaration order, with a defined type name, preserved parameters and the dialect's auto-increment form.",
   note="There is no MySQL / Postgres engine offline: grammars and type lists are transcribed from the manuals (c14/ddl.rs, c14/types.rs), lenient where the manuals leave doubt; the parsers are self-checked against the 91 DDL goldens of the repository's own tests (85 accepted, the 6 rejected are listed in the evidence).",
   ref="DESIGN.md 4/C14"),
 "C07": dict(
   technique="proptest over executable statement specs; oracle = differential execution on the real SQLite engine against an independent, fully explicit reference rendering of the same spec (three runs per case: reference, inline, bound), rows and table contents compared",
   text="Exploration: 250 000 (quick) / 5 000 000 (thorough) generated SELECT / INSERT / UPDATE / DELETE statements over a fixed four-table database, normalised by construction into the SQLite-valid, deterministic domain; each is executed as reference SQL, as to_string output and as build output with bound values on fresh copies of the database; results (sequences when ordered, multisets otherwise), RETURNING rows and table snapshots must agree; run-time failures must agree too. Also: self-referencing recursive CTEs in one terminating shape, derived and explicit CTE column lists, WITH around INSERT / UPDATE / DELETE (a CTE shadowing the table the expression subqueries read, which the statement is made to read), float values in arithmetic (part float-values).",
   note="Oracle executor = system SQLite 3.40.1; reference renderer = stmt_ref.rs (shares nothing with sea-query). Engine-imposed determinism constraints are built into the generator (stmt_gen::fix_exec) and listed in the evidence; one SQLite 3.40.1 defect (RIGHT / FULL JOIN after a constant-false ON) is kept out of the domain. Also carries C02's engine clause (inline vs bound).",
   ref="DESIGN.md 4/C07"),
 "C11": dict(
   technique="bounded-exhaustive + proptest over templates built as segment lists (the expected output is computed from the segments, never by tokenising) and over (sql, values) pairs produced by build(); oracle = by-construction expected text and value order; inject_parameters(build) == to_string",
   text="Exploration: every segment list of <= 4 (quick) / 5 (thorough) segments over a 13-segment alphabet x 3 backends x 2 APIs, random templates with quoted segments containing marks, doubled marks, reordered / repeated $n, and random statements whose built form is re-injected and compared with the inline form. The thorough tier adds a coverage-guided libFuzzer campaign over template segment lists decoded from bytes (target tmpl), through the same oracle; its executions, edge coverage and samples are folded into the evidence file (coverage.fuzz_campaigns).",
   note="Adjacency rules that make a template's reading unambiguous are enforced by construction (see domain_restrictions in the evidence); a lone `$` on Postgres, out-of-range $n and too few values are outside the domain.",
   ref="DESIGN.md 4/C11"),
 "C15": dict(
   technique="stateful / model-based testing over builder call histories (proptest + bounded-exhaustive 'one call per field, one left out' histories); oracle = replay of the same history without the cleared calls / against a fresh statement, equality with pre-operation clones, Debug text and renderings on three backends",
   text="Exploration: 110 000 (quick) / 1 200 000 (thorough) call histories over SelectStatement (about 65 builder calls, every field reachable) and eleven further builder types, with take / clone / clear_* / reset_* inserted at every position; per-field coverage is measured and a field that is never non-default at an operation point makes the run inconclusive.",
   note="`==` is applied only between values that share Rc lineage; independently built statements are compared by Debug text and rendering. Nothing is demanded of the left-over of a schema-statement take() beyond what the property states for query statements.",
   ref="DESIGN.md 4/C15"),
 "C01": dict(
   technique="proptest over structured statement specs (nesting via subqueries, set operations, CTEs); oracle = independent dialect lexer (placeholder count / form / numbering) + independent reading-order model of bound values over uniquely tagged values",
   text="Exploration: 200 000 (quick) / 4 000 000 (thorough) generated SELECT / INSERT / UPDATE / DELETE statements per run across the three backends, with every bound value re-tagged uniquely; the placeholders found by the harness's lexer must match the returned values in number and form, and the returned value sequence must equal the sequence an independent traversal of the spec predicts for that dialect's clause order. All build entry points must agree. Plus one statement with exactly k bound values for every k up to 2200 (quick) / 12000 (thorough) per backend. The statement interpreter chooses among equivalent public entry points, call orders and builder finishers by generated selectors.",
   note="The reading-order model (stmt_params.rs) is transcribed from the engines' grammars; documented repetitions (MySQL NULLS emulation, ORDER BY FIELD) are modelled with their multiplicity. WithQuery wrapper statements are exercised through with_cte on each statement kind.",
   ref="DESIGN.md 4/C01"),
 "C02": dict(
   technique="proptest over statement specs with values of every supported type; oracle = exact text relation (placeholders located by the harness lexer, replaced by the backend literal, must equal the inline rendering byte for byte) + agreement of all entry points + idempotence + immutability",
   text="Exploration: 120 000 (quick) / 3 000 000 (thorough) generated statements with typed values; inline and parameterised renderings are related textually, all seven rendering entry points are compared, each statement is rendered twice and compared with a clone taken before rendering.",
   note="The engine half (same rows for the inline and the bound form on SQLite) is exercised by C07's three-way execution of every generated statement; C02 itself relates the texts.",
   ref="DESIGN.md 4/C02"),
 "C12": dict(
   technique="bounded-exhaustive (8/16-bit integers, chars, full source-variant x target-type table) + proptest random values and tuples; oracle = round trip through Value with an independent canonical form per type, variant observed by pattern matching only",
   text="Exploration: bool / i8 / u8 / i16 / u16 exhaustively, every 17th char (quick) / all chars (thorough), the full table of 477 source values x 137 target extractions, corner values and random values of every supported type (floats by bit pattern, JSON, chrono / time, decimals, uuid, network types, arrays, vectors), Option<T> of each and tuples of arity 1..12. Run in two build configurations (with and without hashable-value).",
   note="A Value is inspected only by pattern matching and canonical forms computed in the harness (float bits, decimal digits and scale, instant + offset); sea-query's own equality is never the oracle.",
   ref="DESIGN.md 4/C12"),
 "C19": dict(
   technique="generated programs (proptest strategies over type definitions) compiled against the working tree's derive crate and executed; oracle = independent snake_case implementation cross-checked against heck, attribute semantics from the docs, harness-computed quoting; failures minimised by a greedy spec reducer",
   text="Exploration over programs: 1 800 (quick) / 38 400 (thorough) generated type definitions (enums and unit structs deriving Iden / IdenStatic, structs under enum_def) with PascalCase / acronym / digit / underscore names, rename / method attributes, flattened variants and enum_def options, plus isolated single-type programs for risky rename strings; every variant's to_string / prepare under four quote styles / as_str is compared with the expected name and with general identifier quoting.",
   note="The derive crate is built from SQV_REPO (default /repo). Identifiers are ASCII; Rust keywords and raw identifiers are not generated; enum_def fields are decided only where the documented and the stated reading agree.",
   ref="DESIGN.md 4/C19"),
 "C06": dict(
   technique="bounded-exhaustive condition trees and call pairs + proptest call histories; oracle = reference three-valued evaluator over the spec, compared on all 256 assignments with the SQLite engine and with the evaluation of the predicate as parsed by the MySQL / Postgres grammar transcriptions",
   text="Exploration: every condition tree of depth <= 1 (width <= 3), every depth-2 group of width <= 2 over the depth-1 trees, every pair of condition-adding calls over small trees, and random histories of up to 4 calls with trees up to depth 3, at six sites (SELECT WHERE / HAVING, UPDATE, DELETE, JOIN ON, CASE WHEN), in both parenthesis configurations. Each case is decided on all three-valued assignments of four columns (256 rows): SQLite by the engine (row sets and, for WHERE, the predicate's truth value incl. NULL vs FALSE), MySQL / Postgres by evaluating the parsed predicate. Ten sites as of the last revision (also partial-index predicates and ON CONFLICT target / action predicates); atoms include two raw SQL fragments; groups may be negated repeatedly.",
   note="Atoms are ten fixed boolean expressions whose reference semantics are written in Rust; MySQL / Postgres verdicts rest on the harness's grammar transcriptions (parse.rs).",
   ref="DESIGN.md 4/C06"),
 "C05": dict(
   technique="exhaustive depth-2 operator matrix + proptest random trees; oracle = grammar-faithful expression parsers per engine (tree equality) and differential evaluation on the SQLite engine against a fully parenthesised reference rendering",
   text="Exploration: the complete depth-2 matrix (outer operator kind x operand position x inner operator kind, per backend) and random expression trees up to depth 4 (quick) / 6 (thorough), in both rendering modes and in both parenthesis configurations (default and option-more-parentheses). The rendering is parsed with an independent transcription of each engine's expression grammar and must give back the tree that was built; SQLite renderings are also evaluated by the real engine over 125 rows against an explicit reference. Plus left-deep chains of one operator of every length up to 80 (quick) / 300 (thorough) with a same-operator group as one right operand.",
   note="MySQL (sql_yacc.yy layering), Postgres (gram.y precedence, a_expr/b_expr) and SQLite (parse.y) grammars are transcribed by hand; constructs where the transcription is uncertain are counted as undecided, never reported. The SQLite transcription is cross-checked by the engine differential.",
   ref="DESIGN.md 4/C05"),
 "C18": dict(
   technique="all pairs and all triples of a constructed value pool + proptest random pairs / tuples / maps; oracle = algebraic laws (equivalence relation, eq => equal hash under several hashers and identical write sequences, HashSet/HashMap agreement) and an independent payload-equality oracle",
   text="Exploration: all pairs and all triples of a pool of 500 (quick) / 1200 (thorough) values covering every variant, NULLs, NaN payloads, signed zeros, infinities, decimals with different scales, equal instants with different offsets, JSON key orders, nested arrays and vectors, plus random pairs, value tuples and hash-map workloads. Exhaustive over the pool only.",
   note="Built with the hashable-value feature (harness feature hv). The payload-equality oracle is written in the harness from the payload types' own equality.",
   ref="DESIGN.md 4/C18"),
 "C20": dict(
   technique="generated programs x feature configurations with the compiler as oracle (exhaustive enumeration of the public types scanned from the tree), negative control without thread-safe, plus a generated cross-thread rendering program",
   text="Exploration over programs and configurations: the set of public data types is derived from /repo/src at run time; for each feature configuration containing thread-safe a generated crate asserts Send and Sync for every type (plus futures holding them across an await) and must compile; the same program without thread-safe must fail at exactly the identifier-bearing types (non-vacuity). A generated binary builds statements on one thread and renders them on others. Exhaustive over the enumerated type set and the listed configurations (4 quick / 90 thorough), nothing beyond.",
   note="Oracle = rustc via cargo check of generated crates against the working tree (SQV_REPO, default /repo). Generic types are asserted only at the instantiations in the harness's table; macro-generated items are not scanned.",
   ref="DESIGN.md 4/C20"),
 "C10": dict(
   technique="bounded-exhaustive + proptest call histories; oracle = reference model of the INSERT builder state (stateful / model-based), rendered text lexed and compared with the model",
   text="Exploration: every call history of length <= 5 (quick) / 6 (thorough) over a 15-symbol alphabet of columns / values / values_panic / select_from / or_default_values calls, plus random longer histories with wider rows. Each call's outcome and error payload, the unchanged-on-error guarantee, and the final rendering (3 backends, both modes) are compared with a reference model.",
   note="Setter semantics for a later source of the other kind are taken from the code; the rendered text is lexed with the harness's dialect lexers.",
   ref="DESIGN.md 4/C10"),
 "C04": dict(
   technique="bounded-exhaustive + proptest names at 73 identifier positions; oracle = independent dialect lexers (differential token-stream comparison against a benign reference name) + SQLite catalogue read-back",
   text="Exploration: every non-empty name over {a \" ` ' \\ . space $ é} up to length 2 (quick) / 3 (thorough) at each of 95 identifier positions of query and schema statements on each backend that supports the position, plus random Unicode names. The rendered statement must lex, under the engine's rules, to the reference token stream with exactly the expected identifier token(s) decoding to the supplied name; on SQLite table / column / index / alias names are read back from the engine. The thorough tier adds a coverage-guided libFuzzer campaign (cargo-fuzz, 8 processes of fixed -runs) through the same oracle; its executions, edge coverage and samples are folded into the evidence file (coverage.fuzz_campaigns). 94 positions as of the last revision (SEARCH / CYCLE names, aliased schema.table forms, qualified tables in schema statements, ...), plus names of every length up to 400 (quick) / 2000 (thorough).",
   note="MySQL backtick and Postgres double-quote identifier rules are transcribed from the manuals; unquoted-by-design positions (Func::cust, Keyword::Custom, ColumnType::Custom) are out of scope; the derive fast path is covered by C19.",
   ref="DESIGN.md 4/C04"),
 "C03": dict(
   technique="bounded-exhaustive + proptest payloads at every inlining position; oracle = independent dialect lexers/decoders (differential token-stream comparison against a benign reference payload) + SQLite engine read-back",
   text="Exploration: every string over a 12/13-symbol quoting-relevant alphabet up to length 3 (quick) / 4 (thorough) at every text position of each backend, every char up to U+2FFF (quick) / all chars (thorough), all byte strings of length <= 2, and random Unicode text / chars / byte strings. The rendered statement must lex, under the engine's lexical rules, to the same token stream as a benign reference rendering with exactly one literal token whose decoded content equals the payload; SQLite literals are also read back through the real engine. The thorough tier adds a coverage-guided libFuzzer campaign (cargo-fuzz, 8 processes of fixed -runs) through the same oracle; its executions, edge coverage and samples are folded into the evidence file (coverage.fuzz_campaigns). Plus one byte string and one text of every length up to 1200 (quick) / 6000 (thorough) per backend (22 positions).",
   note="MySQL (default sql_mode) and Postgres (standard_conforming_strings=on) lexical rules are transcribed from the manuals into the harness lexers; there is no MySQL/Postgres engine in the sandbox. SQLite 3.40.1 is the real engine.",
   ref="DESIGN.md 4/C03"),
 "C16": dict(
   technique="bounded-exhaustive enumeration + proptest random/constructed inputs; oracle = progress/non-empty/concatenation invariants and by-construction token boundaries",
   text="Exploration: every string over a 16-symbol token-relevant alphabet up to length 4 (quick) / 6 (thorough) is enumerated, plus random Unicode strings and strings constructed from quoted segments whose token boundaries are known by construction. Exhaustive within the stated bound only; no claim beyond it. The thorough tier adds a coverage-guided libFuzzer campaign (cargo-fuzz, 8 processes of fixed -runs) through the same oracle; its executions, edge coverage and samples are folded into the evidence file (coverage.fuzz_campaigns).",
   note="Trusts that Tokenizer::p is the cursor (public field). A hang inside a single next() call is detected by a watchdog and confirmed by a re-run before being reported.",
   ref="DESIGN.md 4/C16"),
 "C17": dict(
   technique="bounded-exhaustive enumeration + proptest random strings; oracle = round trip unescape(escape(s)) == s",
   text="Exploration: round trip over every string of a 19-symbol escape-relevant alphabet up to length 4 (quick) / 5 (thorough) and random Unicode strings including NUL, on the three backends. The thorough tier adds a coverage-guided libFuzzer campaign (cargo-fuzz, 8 processes of fixed -runs) through the same oracle; its executions, edge coverage and samples are folded into the evidence file (coverage.fuzz_campaigns).",
   note="The round trip is the whole property; nothing else is trusted.",
   ref="DESIGN.md 4/C17"),
}

PENDING_REASON = "check not built yet in this revision of /verif (planned in DESIGN.md section 4; not claimed until its check is registered)"

def main():
    props = [json.loads(l)["id"] for l in open(os.path.join(ROOT, "properties.jsonl"))]
    checks = []
    for pid in props:
        if pid not in CHECKS: continue
        c = CHECKS[pid]
        checks.append({
            "property_id": pid,
            "quick_cmd": f"./check {pid} --tier quick",
            "thorough_cmd": f"./check {pid} --tier thorough",
            "evidence_file": f"/verif/evidence/{pid}.json",
            "replay_cmd_template": f"./check {pid} --replay {{path}}",
            "engine": "sqv",
            "level_claimed": {"category": "exploration", "text": c["text"], "design_ref": c["ref"]},
            "level_note": c["note"],
            "technique": c["technique"],
        })
    na = [{"property_id": p, "reason": NA.get(p, PENDING_REASON)} for p in props if p not in CHECKS]
    m = {
        "version": 1,
        "setup_cmd": "./setup.sh",
        "hooks": {
            "guard": "seaql_sea_query_verif",
            "enable": "no source hooks are needed: every observation goes through sea-query's public API; checks build /repo's working tree as a path dependency",
            "baseline_off_cmd": BASELINE_OFF,
            "source_commits": [],
            "add_only": True,
        },
        "engines": [{"name": "sqv", "path": "/verif/harness", "serves_properties": [c["property_id"] for c in checks],
                     "kind_free_text": "Rust harness crate: proptest strategies + bounded-exhaustive enumerators driving sea-query's public API against independent oracles (dialect lexers/parsers, reference models, the system SQLite engine)"},
                    {"name": "sqv-fuzz", "path": "/verif/fuzz", "serves_properties": ["C03", "C04", "C11", "C16", "C17"],
                     "kind_free_text": "cargo-fuzz crate with one libFuzzer binary (target multi; SQV_FUZZ_TARGET selects lit / ident / tmpl / tok / esc from harness/src/fuzzdec.rs); run by the thorough tiers through tools/fuzz_campaign.py after the harness run"}],
        "checks": checks,
        "notes": "Every check: ./check <ID> [--tier quick|thorough] [--replay file]; VERIF_SEED selects the PRNG stream; exit 0 held / 1 VIOLATION / 2 inconclusive. Known findings: KNOWN_FINDINGS.txt.",
        "not_applicable": na,
    }
    out = os.path.join(ROOT, "MANIFEST.json")
    json.dump(m, open(out, "w"), indent=1)
    try:
        import jsonschema
        jsonschema.validate(m, json.load(open("/root/.vp/MANIFEST.schema.json")))
        print("MANIFEST.json valid:", len(checks), "checks,", len(na), "not_applicable")
    except ImportError:
        print("jsonschema not available; wrote without validation")

NA = {}
if __name__ == "__main__":
    main()
