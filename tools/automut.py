#!/usr/bin/env python3
"""Automatic mutation sampling: how many small syntactic changes to sea-query that still compile AND pass the pinned 477 tests
do the quick tiers notice?   usage: tools/automut.py <seed> <count> [worker-id]
Mutation operators (one line each): delete a `write!(..).unwrap();` statement, drop / add a blank inside a written SQL string,
flip == / !=, && / ||, true / false, replace `.is_some()` by `.is_none()`, swap Asc / Desc style constants.
Every mutant is made in a scratch worktree under /tmp (never /repo), first run against the repository's own suite, and only the
survivors are handed to tools/mutant.py with the checks that look at the mutated file. Results: .work/automut-<worker>.jsonl"""
import json, os, random, re, subprocess, sys

ROOT = "/verif"
FILES = {
    "src/backend/query_builder.rs": ["C01", "C02", "C05", "C07", "C08", "C04", "C03", "C06"],
    "src/backend/mysql/query.rs": ["C01", "C08", "C09"],
    "src/backend/postgres/query.rs": ["C01", "C03", "C05", "C08"],
    "src/backend/sqlite/query.rs": ["C02", "C07"],
    "src/query/select.rs": ["C07", "C08", "C15"],
    "src/query/insert.rs": ["C10", "C07", "C15"],
    "src/query/update.rs": ["C07", "C08", "C15"],
    "src/query/delete.rs": ["C07", "C15"],
    "src/query/condition.rs": ["C06", "C07"],
    "src/query/on_conflict.rs": ["C01", "C06", "C07"],
    "src/query/with.rs": ["C07", "C08", "C02"],
    "src/query/window.rs": ["C01", "C07", "C15"],
    "src/prepare.rs": ["C01", "C02", "C11"],
    "src/token.rs": ["C16", "C11"],
    "src/expr.rs": ["C05", "C07"],
    "src/func.rs": ["C05", "C08"],
    "src/backend/table_builder.rs": ["C13", "C14"],
    "src/backend/index_builder.rs": ["C13", "C14", "C04"],
    "src/backend/foreign_key_builder.rs": ["C13", "C14"],
    "src/backend/mysql/table.rs": ["C14", "C03"],
    "src/backend/postgres/table.rs": ["C14"],
    "src/backend/sqlite/table.rs": ["C13"],
    "src/backend/mysql/index.rs": ["C14", "C04"],
    "src/backend/postgres/index.rs": ["C14", "C04"],
    "src/backend/sqlite/index.rs": ["C13"],
    "src/types.rs": ["C04", "C19"],
}
# builder layer (mode "builder": statements of builder methods are deleted / turned from append into replace and back)
BUILDER_FILES = {
    "src/expr.rs": ["C05", "C08", "C07"],
    "src/func.rs": ["C08", "C05"],
    "src/extension/postgres/func.rs": ["C08"],
    "src/extension/postgres/expr.rs": ["C08", "C05"],
    "src/extension/sqlite/expr.rs": ["C07", "C05"],
    "src/query/select.rs": ["C08", "C07", "C15"],
    "src/query/insert.rs": ["C10", "C08", "C07"],
    "src/query/update.rs": ["C08", "C07", "C06"],
    "src/query/delete.rs": ["C08", "C07", "C06"],
    "src/query/condition.rs": ["C06", "C07"],
    "src/query/on_conflict.rs": ["C08", "C07", "C06"],
    "src/query/ordered.rs": ["C08", "C07"],
    "src/query/returning.rs": ["C08", "C07"],
    "src/query/window.rs": ["C08", "C07", "C15"],
    "src/query/with.rs": ["C08", "C07"],
    "src/query/case.rs": ["C08", "C06"],
    "src/table/create.rs": ["C14", "C13", "C15"],
    "src/table/alter.rs": ["C14", "C15"],
    "src/table/column.rs": ["C14", "C13", "C15"],
    "src/table/drop.rs": ["C14", "C15"],
    "src/table/rename.rs": ["C14", "C15"],
    "src/table/truncate.rs": ["C14", "C15"],
    "src/index/create.rs": ["C14", "C13", "C15"],
    "src/index/common.rs": ["C14", "C13"],
    "src/index/drop.rs": ["C14", "C15"],
    "src/foreign_key/create.rs": ["C14", "C13", "C15"],
    "src/foreign_key/common.rs": ["C14", "C13", "C15"],
    "src/foreign_key/drop.rs": ["C14", "C15"],
    "src/extension/postgres/types.rs": ["C14"],
    "src/extension/postgres/extension.rs": ["C14"],
}

def builder_candidates(path, text):
    out = []
    lines = text.split("\n")
    in_test = False
    for i, l in enumerate(lines):
        if "#[cfg(test)]" in l:
            in_test = True
        if in_test:
            continue
        st = l.strip()
        if st.startswith("//") or st.startswith("#["):
            continue
        # one-line statements on self fields
        if re.match(r"^self\.[a-z_.]+(\.push\(|\.extend\(|\.append\(| = ).*;$", st):
            out.append((i, "delete-self-statement", ""))
            m = re.match(r"^(\s*)self\.([a-z_.]+)\.push\((.*)\);$", l)
            if m:
                out.append((i, "push-to-assign", f"{m.group(1)}self.{m.group(2)} = vec![{m.group(3)}];"))
            m = re.match(r"^(\s*)self\.([a-z_.]+) = Some\((.*)\);$", l)
            if m:
                out.append((i, "some-to-none", f"{m.group(1)}self.{m.group(2)} = None;"))
            m = re.match(r"^(\s*)self\.([a-z_.]+) = (true|false);$", l)
            if m:
                out.append((i, "flip-bool", f"{m.group(1)}self.{m.group(2)} = {'false' if m.group(3) == 'true' else 'true'};"))
        for a, b, name in [("BinOper::Equal", "BinOper::NotEqual", "eq-ne-oper"), ("BinOper::And", "BinOper::Or", "and-or-oper"), ("Order::Asc", "Order::Desc", "asc-desc"),
                           ("NullOrdering::First", "NullOrdering::Last", "nulls"), ("JoinType::LeftJoin", "JoinType::InnerJoin", "join-type"), ("UnionType::All", "UnionType::Distinct", "union-type"),
                           ("BinOper::In", "BinOper::NotIn", "in-notin"), ("BinOper::Like", "BinOper::NotLike", "like-notlike"), ("BinOper::GreaterThan,", "BinOper::SmallerThan,", "gt-lt"),
                           ("BinOper::Is,", "BinOper::IsNot,", "is-isnot"), ("BinOper::Add", "BinOper::Sub", "add-sub"), ("UnOper::Not", "UnOper::Not", "noop")]:
            if name != "noop" and a in l and "=>" not in l and "fn " not in l and "///" not in l:
                out.append((i, name, l.replace(a, b, 1)))
    return out


def sh(cmd, **kw):
    return subprocess.run(cmd, shell=True, text=True, capture_output=True, **kw)

def candidates(path, text):
    out = []
    lines = text.split("\n")
    in_test = False
    for i, l in enumerate(lines):
        if "#[cfg(test)]" in l:
            in_test = True
        if in_test:
            continue
        st = l.strip()
        if st.startswith("//") or st.startswith("///") or st.startswith("#["):
            continue
        if re.match(r"^write!\(.*\)\.unwrap\(\);$", st):
            out.append((i, "delete-write", None))
            m = re.search(r'"([^"]*)"', st)
            if m and " " in m.group(1):
                s2 = m.group(1).replace(" ", "", 1)
                out.append((i, "drop-blank", l.replace('"' + m.group(1) + '"', '"' + s2 + '"', 1)))
        for a, b, name in [(" == ", " != ", "eq-ne"), (" != ", " == ", "ne-eq"), (" && ", " || ", "and-or"), (" || ", " && ", "or-and"),
                           (".is_some()", ".is_none()", "some-none"), (".is_empty()", ".len() == 1", "empty-one"), ("!first", "first", "not-first")]:
            if a in l and "assert" not in l and "fn " not in l:
                out.append((i, name, l.replace(a, b, 1)))
        if re.search(r"\btrue\b", l) and "=>" not in l and "fn " not in l and "assert" not in l:
            out.append((i, "true-false", re.sub(r"\btrue\b", "false", l, count=1)))
    return out

def main():
    seed, count = int(sys.argv[1]), int(sys.argv[2])
    worker = sys.argv[3] if len(sys.argv) > 3 else "0"
    rnd = random.Random(seed)
    allc = []
    builder = os.environ.get("AUTOMUT_MODE") == "builder"
    if builder:
        FILES.clear()
        FILES.update(BUILDER_FILES)
    for f in FILES:
        if not os.path.exists(f"/repo/{f}"):
            continue
        text = open(f"/repo/{f}").read()
        for c in (builder_candidates if builder else candidates)(f, text):
            allc.append((f,) + c)
    rnd.shuffle(allc)
    wt = f"/tmp/automut-wt-{worker}"
    if not os.path.isdir(wt):
        r = sh(f"git -C /repo worktree add --detach {wt} HEAD")
        if r.returncode:
            sys.exit(r.stderr)
        sh(f"cp /repo/Cargo.lock {wt}/")
    outp = f"{ROOT}/.work/automut-{worker}.jsonl"
    done = 0
    for (f, i, op, new) in allc:
        if done >= count:
            break
        sh(f"git -C {wt} checkout -q --detach $(git -C /repo rev-parse HEAD) && git -C {wt} reset -q --hard")
        lines = open(f"{wt}/{f}").read().split("\n")
        old = lines[i]
        if op in ("delete-write", "delete-self-statement"):
            lines[i] = ""
        else:
            lines[i] = new
        open(f"{wt}/{f}", "w").write("\n".join(lines))
        rec = {"file": f, "line": i + 1, "op": op, "old": old.strip(), "new": (new or "").strip()}
        b = sh(f"cd {wt} && cargo build --offline 2>&1 | tail -3")
        if "error" in b.stdout and "Finished" not in b.stdout:
            continue  # does not compile: not a mutant
        t = sh(f"cd {wt} && cargo nextest run --workspace --no-fail-fast --tool-config-file pb:/w/lib/nextest.toml --profile pb --test-threads 8 --offline 2>&1 | grep -E 'Summary' | tail -1")
        if "477 passed" not in t.stdout:
            rec["outcome"] = "killed-by-repo-suite"
            open(outp, "a").write(json.dumps(rec) + "\n")
            continue
        patch = f"{ROOT}/.work/automut-{worker}.diff"
        open(patch, "w").write(sh(f"git -C {wt} diff -- src sea-query-derive").stdout)
        ids = ",".join(FILES[f])
        env = dict(os.environ, SQV_MUT_ID=f"auto{worker}")
        m = subprocess.run(f"python3 {ROOT}/tools/mutant.py {patch} {ids}", shell=True, text=True, capture_output=True, env=env)
        try:
            res = json.loads(m.stdout)["results"]
            caught = {k: v[0] for k, v in res.items()}
            rec["outcome"] = "caught" if any(v == 1 for v in caught.values()) else "survived"
            rec["checks"] = caught
            rec["signatures"] = [s for v in res.values() if isinstance(v[1], list) for s in v[1]][:3]
        except Exception as e:
            rec["outcome"] = "runner-error"
            rec["detail"] = (m.stdout + m.stderr)[-300:]
        open(outp, "a").write(json.dumps(rec) + "\n")
        done += 1
        print(rec["outcome"], f, i + 1, op, flush=True)

if __name__ == "__main__":
    main()
