#!/usr/bin/env python3
import json,glob,sys,collections
pid=sys.argv[1]; n=int(sys.argv[2]) if len(sys.argv)>2 else 200
rows=[]
for f in sorted(glob.glob(f'/verif/replays/{pid}-*.json')):
    j=json.load(open(f)); rows.append((j['signature'],j['detail']))
for s,d in sorted(rows): print(s,'\n     ',d[:n])
print(len(rows),'failures')
