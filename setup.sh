#!/bin/bash
# Build every harness configuration offline from files on disk (MANIFEST.setup_cmd).
set -e
ROOT="$(cd "$(dirname "$0")" && pwd)"
export CARGO_NET_OFFLINE=true
mkdir -p "$ROOT/.work" "$ROOT/evidence"
cd "$ROOT/harness"
CARGO_TARGET_DIR="$ROOT/.work/target-main" cargo build --release
CARGO_TARGET_DIR="$ROOT/.work/target-hv" cargo build --release --features hv
CARGO_TARGET_DIR="$ROOT/.work/target-paren" cargo build --release --features paren
echo "setup ok"
